//! C12 – persisted objects survive serialization unchanged (ChannelManager, ChannelMonitor,
//! ChannelMonitorUpdate parts; scorer, sweeper and graph are covered by pure binaries).
//! Z1  every ChannelMonitorUpdate handed to chain::Watch reads back equal (checked in the tap);
//!     every monitor and manager serialized at a quiescent point reads back
//! Z3  shadow monitors: a copy of each monitor is kept outside the node, is serialized and read
//!     back at every quiescent point, and receives every later update and block exactly as the
//!     real one does; at the next quiescent point it must equal the real monitor under the
//!     library's own equality (so: applying updates/blocks before or after a round trip is the same)
//! Z4  the manager read back (with the shadow monitors) lists the same channels with the same
//!     balances, limits, pending HTLCs and the same recent payments as the original
//! Z7  timer probe: the manager read back is given four timer ticks (more than the MPP timeout); it must not
//!     give up a payment that had been announced claimable before the round trip and that the
//!     original went on to claim without a restart in between
//! Z6  byte-level: every sampled strict prefix of an encoding fails to read; an unknown odd record
//!     appended to the trailing TLV stream is ignored (equal object), an unknown even one rejected
use super::{Monitor, Verdicts};
use crate::node::{quiet_parts, Mgr};
use crate::sim::{Obs, World};
use crate::taps::*;
use lightning::chain::channelmonitor::{ChannelMonitor, ChannelMonitorUpdate};
use lightning::chain::BlockLocator;
use lightning::ln::channelmanager::ChannelManagerReadArgs;
use lightning::ln::types::ChannelId;
use lightning::events::EventsProvider;
use lightning::util::ser::{Readable, ReadableArgs, Writeable};
use std::collections::{BTreeSet, HashMap};
use std::sync::Arc;
use vcore::canon;

struct Shadow {
	mon: ChannelMonitor<TapSigner>,
	#[allow(dead_code)]
	keys: Arc<Keys>,
	bcast: Arc<Bcast>,
	fee: Arc<Fee>,
	logger: Arc<RingLogger>,
	applied: u64,
	roundtrips: u64,
}

pub struct SerialMonitor {
	/// on-chain profiles: plain round trips only (no shadow monitors: forks are not replayed to them)
	pub roundtrip_only: bool,
	shadows: HashMap<(usize, ChannelId), Shadow>,
	stale_nodes: BTreeSet<usize>,
	pending: HashMap<(usize, ChannelId, u64), Vec<u8>>,
	persisted_first: BTreeSet<(usize, ChannelId, u64)>,
	settles: u64,
	rng: vcore::Rng,
	/// (node, hash): PaymentClaimable delivered, nothing given up / claimed since, no restart since
	announced: BTreeSet<(usize, [u8; 32])>,
	/// (node, hash) a read-back copy gave up under timer ticks while it was announced
	probe_gave_up: BTreeSet<(usize, [u8; 32])>,
}

impl SerialMonitor {
	/// Z1 in the middle of an on-chain resolution (claims in flight, packages waiting for their timelocks, events
	/// pending): every monitor is written and read back and must equal the original; the manager must read back.
	pub fn midchain_point(&mut self, w: &World, v: &mut Verdicts) {
		for (n, node) in w.nodes.iter().enumerate() {
			if node.persister.dead.load(std::sync::atomic::Ordering::SeqCst) {
				continue;
			}
			let (keys, bcast, fee, logger, _p, _mon, watch) = quiet_parts(n, &node.cfg, w.fee_now, node.generation);
			let mut mons: Vec<ChannelMonitor<TapSigner>> = vec![];
			for cid in node.mon.list_monitors() {
				let real = match node.mon.get_monitor(cid) {
					Ok(m) => m,
					Err(_) => continue,
				};
				let bytes = real.encode();
				v.rep.count("c12_z1_monitors_roundtripped_during_onchain_resolution");
				if !real.get_claimable_balances().is_empty() {
					v.rep.count("c12_z1_monitors_roundtripped_with_balances_still_to_claim");
				}
				match Self::read_monitor(&bytes, &keys) {
					Ok(m2) => {
						if !real.verif_eq(&m2) {
							let sig = if real.verif_eq_ignoring_in_memory_only_state(&m2) { "a ChannelMonitor holding in-memory-only state (ids of HTLCs already failed back, documented as not serialized) is not equal to the monitor read back from its serialization" } else { "a ChannelMonitor written during an on-chain resolution is not equal to the monitor read back from its serialization" };
							v.violation("C12", "Z1-roundtrip", sig, format!("node{} chan {} ({} bytes) at height {}", n, cid, bytes.len(), w.chain.height()));
						}
						mons.push(m2);
					},
					Err(e) => v.violation("C12", "Z1-roundtrip", &format!("a ChannelMonitor does not read back: {}", canon(&e)), format!("node{} chan {}: {}", n, cid, e)),
				}
			}
			if self.rng.chance(1, 4) {
				let mbytes = node.mgr.encode();
				let refs: Vec<&ChannelMonitor<TapSigner>> = mons.iter().collect();
				let args = ChannelManagerReadArgs::new(keys.clone(), keys.clone(), keys.clone(), fee.clone(), watch.clone(), bcast.clone(), Arc::new(NoRouter::default()), Arc::new(NoRouter::default()), logger.clone(), node.cfg.user.clone(), refs);
				v.rep.count("c12_z1_managers_read_back_during_onchain_resolution");
				match vcore::guarded(|| <(BlockLocator, Mgr)>::read(&mut &mbytes[..], args)) {
					Ok(Ok(_)) => {},
					Ok(Err(e)) => v.violation("C12", "Z1-roundtrip", &format!("a ChannelManager does not read back: {}", canon(&format!("{:?}", e))), format!("node{} at height {}", n, w.chain.height())),
					Err(pn) => v.violation("C12", "Z1-roundtrip", &format!("a ChannelManager does not read back: panic: {}", canon(&pn)), format!("node{} at height {}", n, w.chain.height())),
				}
			}
		}
	}
	pub fn new() -> Self {
		SerialMonitor { roundtrip_only: false, shadows: HashMap::new(), stale_nodes: BTreeSet::new(), pending: HashMap::new(), persisted_first: BTreeSet::new(), settles: 0, rng: vcore::Rng::new(0xC12), announced: BTreeSet::new(), probe_gave_up: BTreeSet::new() }
	}
	fn apply(&mut self, node: usize, chan: ChannelId, update_id: u64, bytes: &[u8], v: &mut Verdicts) {
		if let Some(s) = self.shadows.get_mut(&(node, chan)) {
			if let Ok(u) = <ChannelMonitorUpdate as Readable>::read(&mut &bytes[..]) {
				// (replays of an update the monitor already has are refused by the monitor itself)
				if u.update_id > s.mon.get_latest_update_id() {
					let r = vcore::guarded(|| s.mon.update_monitor(&u, &s.bcast, &s.fee, &s.logger));
					s.applied += 1;
					if let Err(p) = r {
						v.violation("C12", "Z3-update-after-roundtrip", &format!("applying an update to a monitor that went through a round trip panics: {}", canon(&p)), format!("node{} chan {} update {}", node, chan, update_id));
						self.shadows.remove(&(node, chan));
						return;
					}
				}
			}
		}
	}
	fn read_monitor(bytes: &[u8], keys: &Arc<Keys>) -> Result<ChannelMonitor<TapSigner>, String> {
		match vcore::guarded(|| <(BlockLocator, ChannelMonitor<TapSigner>)>::read(&mut &bytes[..], (&**keys, &**keys))) {
			Ok(Ok((_, m))) => Ok(m),
			Ok(Err(e)) => Err(format!("{:?}", e)),
			Err(p) => Err(format!("panic: {}", p)),
		}
	}
}

/// Candidate positions of the length prefix of a trailing TLV stream.
fn trailing_tlv_candidates(b: &[u8]) -> Vec<(usize, usize)> {
	fn bigsize(b: &[u8], p: usize) -> Option<(u64, usize)> {
		let f = *b.get(p)?;
		match f {
			0xfd => Some((u16::from_be_bytes([*b.get(p + 1)?, *b.get(p + 2)?]) as u64, 3)).filter(|(v, _)| *v >= 0xfd),
			0xfe => Some((u32::from_be_bytes([*b.get(p + 1)?, *b.get(p + 2)?, *b.get(p + 3)?, *b.get(p + 4)?]) as u64, 5)).filter(|(v, _)| *v >= 0x10000),
			0xff => None,
			v => Some((v as u64, 1)),
		}
	}
	let mut out = vec![];
	let start = b.len().saturating_sub(70_000);
	for p in start..b.len() {
		if let Some((l, k)) = bigsize(b, p) {
			if p + k + l as usize == b.len() && l > 0 {
				// must parse as records with strictly increasing types
				let mut q = p + k;
				let mut last: Option<u64> = None;
				let mut ok = true;
				while q < b.len() {
					let (t, kt) = match bigsize(b, q) {
						Some(x) => x,
						None => {
							ok = false;
							break;
						},
					};
					let (len, kl) = match bigsize(b, q + kt) {
						Some(x) => x,
						None => {
							ok = false;
							break;
						},
					};
					if last.map(|l| t <= l).unwrap_or(false) || q + kt + kl + len as usize > b.len() {
						ok = false;
						break;
					}
					last = Some(t);
					q += kt + kl + len as usize;
				}
				if ok && q == b.len() {
					out.push((p, k));
				}
			}
		}
	}
	out
}
/// Append one record (type, 3 value bytes) to the trailing stream whose length prefix is at `p`.
fn splice(b: &[u8], p: usize, k: usize, typ: u64) -> Option<Vec<u8>> {
	let old_len = b.len() - p - k;
	let mut rec = vec![0xfe];
	rec.extend_from_slice(&(typ as u32).to_be_bytes());
	rec.push(3);
	rec.extend_from_slice(&[1, 2, 3]);
	let new_len = old_len + rec.len();
	let mut out = b[..p].to_vec();
	if new_len < 0xfd {
		out.push(new_len as u8);
	} else if new_len < 0x10000 {
		out.push(0xfd);
		out.extend_from_slice(&(new_len as u16).to_be_bytes());
	} else {
		out.push(0xfe);
		out.extend_from_slice(&(new_len as u32).to_be_bytes());
	}
	out.extend_from_slice(&b[p + k..]);
	out.extend_from_slice(&rec);
	Some(out)
}

fn project_mgr(m: &Mgr) -> String {
	let mut chans: Vec<String> = m
		.list_channels()
		.iter()
		.map(|c| {
			format!(
				"chan {} peer {} value {} reserve {:?} out_cap {} in_cap {} next_out_limit {} next_out_min {} ready {} outbound {} scid {:?} feerate {:?} conf_req {:?} force_close_delay {:?} in_htlcs {:?} out_htlcs {:?} shutdown {:?} cfg {:?} type {:?} user_id {} funding {:?}",
				c.channel_id, c.counterparty.node_id, c.channel_value_satoshis, c.unspendable_punishment_reserve, c.outbound_capacity_msat, c.inbound_capacity_msat, c.next_outbound_htlc_limit_msat, c.next_outbound_htlc_minimum_msat, c.is_channel_ready, c.is_outbound, c.short_channel_id, c.feerate_sat_per_1000_weight, c.confirmations_required, c.force_close_spend_delay, c.pending_inbound_htlcs, c.pending_outbound_htlcs, c.channel_shutdown_state, c.config, c.channel_type, c.user_channel_id, c.funding_txo
			)
		})
		.collect();
	chans.sort();
	let mut pays: Vec<String> = m.list_recent_payments().iter().map(|p| format!("{:?}", p)).collect();
	pays.sort();
	chans.join("\n") + "\n" + &pays.join("\n")
}

impl Monitor for SerialMonitor {
	fn name(&self) -> &'static str {
		"C12-serialization"
	}
	fn on_obs(&mut self, w: &World, o: &Obs, v: &mut Verdicts) {
		match o {
			Obs::Restarted { node, .. } => {
				// the node now runs on what was on its disk: the shadows of its monitors are re-cloned at the
				// next quiescent point
				self.stale_nodes.insert(*node);
				self.shadows.retain(|k, _| k.0 != *node);
				self.pending.retain(|k, _| k.0 != *node);
				self.persisted_first.retain(|k| k.0 != *node);
				self.announced.retain(|k| k.0 != *node);
				self.probe_gave_up.retain(|k| k.0 != *node);
			},
			Obs::Event { node, ev, .. } => match ev {
				lightning::events::Event::PaymentClaimable { payment_hash, .. } => {
					self.announced.insert((*node, payment_hash.0));
				},
				lightning::events::Event::HTLCHandlingFailed { failure_type: lightning::events::HTLCHandlingFailureType::Receive { payment_hash }, .. } => {
					self.announced.remove(&(*node, payment_hash.0));
					self.probe_gave_up.remove(&(*node, payment_hash.0));
				},
				lightning::events::Event::PaymentClaimed { payment_hash, .. } => {
					v.rep.count("c12_z7_claims_checked_against_probes");
					self.announced.remove(&(*node, payment_hash.0));
					if self.probe_gave_up.remove(&(*node, payment_hash.0)) {
						v.violation("C12", "Z7-timer-probe", "a ChannelManager read back from its serialization gives up, after a few timer ticks, a payment that had been announced claimable and that the original went on to claim", format!("node{} hash {}", node, vcore::hex(&payment_hash.0[..6])));
					}
				},
				_ => {},
			},
			Obs::Tap(Ev::WatchUpdate { node, chan, update_id, bytes, roundtrip, .. }) => {
				v.rep.count("c12_z1_monitor_updates_roundtripped");
				if let Some(why) = roundtrip {
					v.violation("C12", "Z1-roundtrip", &format!("a ChannelMonitorUpdate {}", canon(why)), format!("node{} chan {} update {}", node, chan, update_id));
				}
				// the real monitor applies the update when the ChainMonitor hands it to the persister: right now,
				// or at a later flush when the node runs its ChainMonitor in deferred mode
				if self.persisted_first.remove(&(*node, *chan, *update_id)) {
					self.apply(*node, *chan, *update_id, bytes, v);
				} else {
					self.pending.insert((*node, *chan, *update_id), bytes.clone());
				}
			},
			Obs::Tap(Ev::PersistUpdate { node, chan, update_id: None, latest, .. }) => {
				// a full-monitor write: whatever was handed out up to `latest` has been applied by now
				let mut ids: Vec<u64> = self.pending.keys().filter(|k| k.0 == *node && k.1 == *chan && k.2 <= *latest).map(|k| k.2).collect();
				ids.sort();
				for id in ids {
					if let Some(bytes) = self.pending.remove(&(*node, *chan, id)) {
						self.apply(*node, *chan, id, &bytes, v);
					}
				}
			},
			Obs::Tap(Ev::PersistUpdate { node, chan, update_id: Some(id), .. }) => {
				match self.pending.remove(&(*node, *chan, *id)) {
					Some(bytes) => self.apply(*node, *chan, *id, &bytes, v),
					None => {
						self.persisted_first.insert((*node, *chan, *id));
					},
				}
			},
			Obs::MonitorChainCall { node, height, best_block, .. } => {
				let b = w.chain.block_at(*height);
				let txdata: Vec<(usize, &bitcoin::Transaction)> = b.txs.iter().enumerate().map(|(i, t)| (i + 1, t)).collect();
				for (k, s) in self.shadows.iter_mut() {
					if k.0 != *node {
						continue;
					}
					if *best_block {
						s.mon.best_block_updated(&b.header, b.height, &*s.bcast, &*s.fee, &*s.logger);
					} else {
						s.mon.transactions_confirmed(&b.header, &txdata, b.height, &*s.bcast, &*s.fee, &*s.logger);
					}
				}
			},
			_ => {},
		}
	}
	fn on_midchain(&mut self, w: &World, v: &mut Verdicts) {
		self.midchain_point(w, v);
	}
	fn on_settled(&mut self, w: &World, v: &mut Verdicts) {
		self.settles += 1;
		for (n, node) in w.nodes.iter().enumerate() {
			if node.persister.dead.load(std::sync::atomic::Ordering::SeqCst) {
				continue;
			}
			let fee_now = w.fee_now;
			let mut shadow_bytes: Vec<(ChannelId, Vec<u8>)> = vec![];
			for cid in node.mon.list_monitors() {
				let real = match node.mon.get_monitor(cid) {
					Ok(m) => m,
					Err(_) => continue,
				};
				let bytes = real.encode();
				let key = (n, cid);
				// Z3: compare, then round-trip the shadow
				if let Some(s) = self.shadows.get(&key) {
					// the node's events were all handed out before the quiescent point was declared
					let _ = s.mon.get_and_clear_pending_monitor_events();
					let h = |_e: lightning::events::Event| Ok::<(), lightning::events::ReplayEvent>(());
					let _ = s.mon.process_pending_events(&&h, &*s.logger);
					v.rep.count("c12_z3_shadow_monitor_comparisons");
					v.rep.add("c12_z3_updates_applied_to_roundtripped_monitors", s.applied);
					if !real.verif_eq(&s.mon) && real.verif_eq_ignoring_in_memory_only_state(&s.mon) {
						v.violation("C12", "Z1-roundtrip", "a ChannelMonitor holding in-memory-only state (ids of HTLCs already failed back, documented as not serialized) is not equal to the monitor read back from its serialization", format!("node{} chan {} (shadow comparison)", n, cid));
					} else if !real.verif_eq(&s.mon) {
						// which side of the encoding differs is the best hint we can give
						let sb = s.mon.encode();
						if let Ok(dir) = std::env::var("VERIF_C12_DUMP") {
							let _ = std::fs::write(format!("{}/real.bin", dir), &bytes);
							let _ = std::fs::write(format!("{}/shadow.bin", dir), &sb);
						}
						v.violation("C12", "Z3-update-after-roundtrip", "a monitor that went through a serialization round trip and then received the same updates and blocks differs from the original", format!("node{} chan {}: {} updates applied since the round trip, {} round trips; encodings {} vs {} bytes", n, cid, s.applied, s.roundtrips, bytes.len(), sb.len()));
						self.shadows.remove(&key);
						continue;
					}
				}
				// Z1 on the monitor + new shadow from the bytes
				// (the shadow shares the node's fee estimator – a plain value the scenario changes – but nothing else)
				let (keys, bcast, _fee, logger, _p, _m, _w) = quiet_parts(n, &node.cfg, fee_now, node.generation);
				let fee = node.fee.clone();
				v.rep.count("c12_z1_monitors_roundtripped");
				match Self::read_monitor(&bytes, &keys) {
					Ok(m2) => {
						if !real.verif_eq(&m2) {
							if let Ok(dir) = std::env::var("VERIF_C12_DUMP") {
								let _ = std::fs::write(format!("{}/real.bin", dir), &bytes);
								let _ = std::fs::write(format!("{}/shadow.bin", dir), &m2.encode());
							}
							let sig = if real.verif_eq_ignoring_in_memory_only_state(&m2) { "a ChannelMonitor holding in-memory-only state (ids of HTLCs already failed back, documented as not serialized) is not equal to the monitor read back from its serialization" } else { "a ChannelMonitor read back from its serialization differs from the original" };
							v.violation("C12", "Z1-roundtrip", sig, format!("node{} chan {} ({} bytes)", n, cid, bytes.len()));
						}
						let rts = self.shadows.get(&key).map(|s| s.roundtrips + 1).unwrap_or(1);
						if !self.roundtrip_only {
							self.shadows.insert(key, Shadow { mon: m2, keys: keys.clone(), bcast, fee, logger, applied: 0, roundtrips: rts });
						}
					},
					Err(e) => {
						v.violation("C12", "Z1-roundtrip", &format!("a ChannelMonitor does not read back: {}", canon(&e)), format!("node{} chan {}: {}", n, cid, e));
					},
				}
				shadow_bytes.push((cid, bytes.clone()));
				// Z6 on monitors (sampled)
				if self.rng.chance(1, 6) {
					if let Ok(reread) = Self::read_monitor(&bytes, &keys) {
						self.byte_faults(&bytes, "ChannelMonitor", v, &|b: &[u8]| Self::read_monitor(b, &keys).map(|m| reread.verif_eq(&m)));
					}
				}
			}
			self.stale_nodes.remove(&n);
			// Z4: the manager
			let mbytes = node.mgr.encode();
			let (keys, bcast, fee, logger, _p, _mon, watch) = quiet_parts(n, &node.cfg, fee_now, node.generation);
			let mons: Vec<ChannelMonitor<TapSigner>> = shadow_bytes.iter().filter_map(|(_, b)| Self::read_monitor(b, &keys).ok()).collect();
			let read_mgr = |b: &[u8]| -> Result<Mgr, String> {
				let refs: Vec<&ChannelMonitor<TapSigner>> = mons.iter().collect();
				let args = ChannelManagerReadArgs::new(keys.clone(), keys.clone(), keys.clone(), fee.clone(), watch.clone(), bcast.clone(), Arc::new(NoRouter::default()), Arc::new(NoRouter::default()), logger.clone(), node.cfg.user.clone(), refs);
				match vcore::guarded(|| <(BlockLocator, Mgr)>::read(&mut &b[..], args)) {
					Ok(Ok((_, m))) => Ok(m),
					Ok(Err(e)) => Err(format!("{:?}", e)),
					Err(p) => Err(format!("panic: {}", p)),
				}
			};
			v.rep.count("c12_z4_managers_roundtripped");
			match read_mgr(&mbytes) {
				Ok(m2) => {
					let (a, b) = (project_mgr(&node.mgr), project_mgr(&m2));
					if a != b {
						let diff: Vec<String> = a.lines().zip(b.lines()).filter(|(x, y)| x != y).map(|(x, y)| format!("original: {}\n  read back: {}", x, y)).take(2).collect();
						v.violation("C12", "Z4-manager-state", "a ChannelManager read back from its serialization lists different channels, balances, limits, pending HTLCs or payments", format!("node{}: {}", n, diff.join(" | ").chars().take(1800).collect::<String>()));
					}
					// a second round trip must be stable as well
					let m2bytes = m2.encode();
					match read_mgr(&m2bytes) {
						Ok(m3) => {
							if project_mgr(&m3) != b {
								v.violation("C12", "Z4-manager-state", "a ChannelManager read back twice differs from the one read back once", format!("node{}", n));
							}
						},
						Err(e) => v.violation("C12", "Z1-roundtrip", &format!("a ChannelManager that was read back does not read back again: {}", canon(&e)), format!("node{}: {}", n, e)),
					}
					// Z7
					if self.announced.iter().any(|k| k.0 == n) {
						v.rep.count("c12_z7_timer_probes");
						let gave_up = std::sync::Mutex::new(Vec::new());
						let r = vcore::guarded(|| {
							for _ in 0..4 {
								m2.timer_tick_occurred();
							}
							m2.process_pending_events(&|e: lightning::events::Event| {
								if let lightning::events::Event::HTLCHandlingFailed { failure_type: lightning::events::HTLCHandlingFailureType::Receive { payment_hash }, .. } = e {
									gave_up.lock().unwrap().push(payment_hash.0);
								}
								Ok(())
							});
						});
						if r.is_ok() {
							for h in gave_up.into_inner().unwrap() {
								if self.announced.contains(&(n, h)) {
									v.rep.count("c12_z7_probe_gave_up_announced_payment");
									self.probe_gave_up.insert((n, h));
								}
							}
						}
					}
				},
				Err(e) => v.violation("C12", "Z1-roundtrip", &format!("a ChannelManager does not read back: {}", canon(&e)), format!("node{}: {}", n, e)),
			}
			if self.rng.chance(1, 12) {
				let orig = project_mgr(&node.mgr);
				self.byte_faults(&mbytes, "ChannelManager", v, &|b: &[u8]| read_mgr(b).map(|m| project_mgr(&m) == orig));
			}
		}
	}
}

impl SerialMonitor {
	/// Z6. `read` returns Ok(true) if the bytes read back to an object equal to the original.
	fn byte_faults(&mut self, bytes: &[u8], what: &str, v: &mut Verdicts, read: &dyn Fn(&[u8]) -> Result<bool, String>) {
		// strict prefixes
		for _ in 0..24 {
			let cut = match self.rng.below(4) {
				0 => bytes.len() - 1 - self.rng.below(8.min(bytes.len() as u64 - 1)) as usize,
				1 => self.rng.below(64.min(bytes.len() as u64)) as usize,
				_ => self.rng.below(bytes.len() as u64) as usize,
			};
			v.rep.count("c12_z6_strict_prefixes_checked");
			match read(&bytes[..cut]) {
				Err(e) if e.starts_with("panic") => v.violation("C12", "Z6-byte-faults", &format!("reading a truncated {} panics: {}", what, canon(&e)), format!("cut at {} of {}", cut, bytes.len())),
				Err(_) => {},
				Ok(_) => v.violation("C12", "Z6-byte-faults", &format!("a strict prefix of a {} encoding reads back successfully", what), format!("cut at {} of {}", cut, bytes.len())),
			}
		}
		// unknown records in the trailing TLV stream
		let cands = trailing_tlv_candidates(bytes);
		if cands.len() != 1 {
			v.rep.count("c12_z6_tlv_stream_not_located");
			return;
		}
		let (p, k) = cands[0];
		if let Some(odd) = splice(bytes, p, k, 1_000_000_001) {
			v.rep.count("c12_z6_unknown_odd_record_checks");
			match read(&odd) {
				Ok(true) => {},
				Ok(false) => v.violation("C12", "Z6-byte-faults", &format!("an unknown odd TLV record changes what a {} reads back as", what), String::new()),
				Err(e) => v.violation("C12", "Z6-byte-faults", &format!("an unknown odd TLV record makes a {} unreadable: {}", what, canon(&e)), e),
			}
		}
		if let Some(even) = splice(bytes, p, k, 1_000_000_000) {
			v.rep.count("c12_z6_unknown_even_record_checks");
			match read(&even) {
				Ok(_) => v.violation("C12", "Z6-byte-faults", &format!("an unknown even TLV record in a {} is not rejected", what), String::new()),
				Err(e) if e.starts_with("panic") => v.violation("C12", "Z6-byte-faults", &format!("an unknown even TLV record makes reading a {} panic: {}", what, canon(&e)), e),
				Err(_) => {},
			}
		}
	}
}
