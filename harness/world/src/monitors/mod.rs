//! Property monitors: each consumes the ordered observation stream of a world run and reports
//! violations of its own rules. Monitors never steer the run.
use crate::sim::{Obs, World};
use vcore::Report;

pub mod c01_commit;
pub mod c05_revoke;
pub mod c09_order;
pub mod c10_restart;
pub mod c12_serial;
pub mod c19_mup;
pub mod onchain;
pub mod pay;

pub struct Verdicts<'a> {
	pub rep: &'a mut Report,
	pub run_label: &'a str,
	/// violations raised in this run: (property, rule, signature, detail)
	pub raised: Vec<(String, String, String, String)>,
}
impl<'a> Verdicts<'a> {
	pub fn violation(&mut self, property: &str, rule: &str, signature: &str, detail: String) {
		// de-duplicate within a run: the first occurrence is the witness
		if self.raised.iter().any(|r| r.0 == property && r.1 == rule && r.2 == signature) {
			return;
		}
		self.raised.push((property.into(), rule.into(), signature.into(), detail));
	}
}

pub trait Monitor {
	fn name(&self) -> &'static str;
	fn on_obs(&mut self, w: &World, o: &Obs, v: &mut Verdicts);
	/// called at quiescent points (after a successful settle)
	fn on_settled(&mut self, _w: &World, _v: &mut Verdicts) {}
	/// called after every block of an on-chain resolution (not a quiescent point)
	fn on_midchain(&mut self, _w: &World, _v: &mut Verdicts) {}
	/// called right before the last quiescent point of the run is judged
	fn before_final_settle(&mut self) {}
	/// called once at the end of the run
	fn on_end(&mut self, _w: &World, _v: &mut Verdicts) {}
}
