//! C10 – restarting from persisted state is safe at every crash point.
//! S1  reading the manager back (with the durable monitors) succeeds            [raised by the scheduler]
//! S2  channels whose manager state is older than their monitor are closed with
//!     ClosureReason::OutdatedChannelManager; all others resume: after the restart they hit no
//!     protocol error and no closure, and every later commitment still matches the reference
//!     model that has seen the whole pre-crash history
//! S3  the outside world's monitors (revocation, ordering, payments) keep running across the
//!     restart with their pre-crash state – they are separate monitors; here we only count
//! S5  persistent events: a PaymentClaimable/ PaymentSent … is not lost by the restart – decided
//!     by the payment monitors at the next quiescent point
use super::{Monitor, Verdicts};
use crate::sim::{Obs, World};
use crate::wire::Wire;
use lightning::events::{ClosureReason, Event};
use std::collections::BTreeSet;
use vcore::canon;

#[derive(Default)]
pub struct RestartMonitor {
	pub restarts: u64,
	restarted_nodes: BTreeSet<usize>,
	/// channels (idx) expected to be closed as outdated, per node
	expect_outdated: BTreeSet<(usize, usize)>,
	lagging: std::collections::HashMap<usize, bool>,
}
impl RestartMonitor {
	pub fn new() -> Self {
		Self::default()
	}
}

impl Monitor for RestartMonitor {
	fn name(&self) -> &'static str {
		"C10-restart"
	}
	fn on_obs(&mut self, w: &World, o: &Obs, v: &mut Verdicts) {
		match o {
			Obs::Restarted { node, stale_chans, .. } => {
				self.restarts += 1;
				self.restarted_nodes.insert(*node);
				v.rep.count("c10_restarts_observed");
				let _ = (w, stale_chans);
				// `stale` = an older manager snapshot was used (any lag is admissible)
				if let Obs::Restarted { stale, .. } = o {
					self.lagging.insert(*node, *stale);
				}
			},
			Obs::Emit(e) if !self.restarted_nodes.is_empty() => {
				if let (Wire::Error(m), Some(ci)) = (&e.wire, e.chan) {
					let ch = &w.chans[ci];
					if ch.fault.is_none() && (self.restarted_nodes.contains(&e.from) || self.restarted_nodes.contains(&e.to)) {
						v.violation("C10", "S2-resume", &format!("channel that should have resumed after a restart hit a protocol error: {}", canon(&m.data)), format!("node{} -> node{} chan {}: '{}'", e.from, e.to, ci, m.data));
					}
				}
				if let Some(cc) = &e.commit {
					if self.restarted_nodes.contains(&e.from) || self.restarted_nodes.contains(&e.to) {
						v.rep.count("c10_s2_post_restart_commitments_checked");
						if let Some(m) = &cc.mismatch {
							v.violation("C10", "S2-resume", &format!("commitment after a restart disagrees with the pre-crash history: {}", canon(m.split(':').next().unwrap_or(m))), format!("chan {} signer party {}: {}", cc.chan, cc.signer_party, m));
						}
					}
				}
			},
			Obs::Event { node, ev: Event::ChannelClosed { channel_id, reason, .. }, .. } if !self.restarted_nodes.is_empty() => {
				if let Some(ch) = w.chans.iter().find(|c| c.ids.contains(channel_id)) {
					let _ = self.expect_outdated.remove(&(*node, ch.idx));
					if matches!(reason, ClosureReason::OutdatedChannelManager) {
						v.rep.count("c10_s2_outdated_closures_checked");
						// only a manager that lags behind its monitor may be declared outdated
						if self.lagging.get(node) == Some(&false) {
							v.violation("C10", "S2-outdated", "channel closed as OutdatedChannelManager although the manager was serialized at the instant of the stop", format!("node{} chan {}", node, ch.idx));
						}
					} else if ch.fault.is_none() && !ch.coop_close_started && (self.restarted_nodes.contains(&ch.a) || self.restarted_nodes.contains(&ch.b)) {
						v.violation("C10", "S2-resume", &format!("channel that should have resumed after a restart was closed: {}", canon(&format!("{:?}", reason))), format!("node{} chan {}: {:?}", node, ch.idx, reason));
					}
				}
			},
			_ => {},
		}
	}
	fn on_settled(&mut self, w: &World, v: &mut Verdicts) {
		// a stale channel must have been closed by the time the node is quiescent
		for (node, ci) in std::mem::take(&mut self.expect_outdated) {
			let cid = w.chans[ci].chan_id();
			let still_open = w.nodes[node].mgr.list_channels().iter().any(|c| c.channel_id == cid);
			v.rep.count("c10_s2_outdated_closures_checked");
			if still_open {
				v.violation("C10", "S2-outdated", "channel with a manager older than its monitor was resumed instead of being closed", format!("node{} chan {}", node, ci));
			}
		}
	}
}
