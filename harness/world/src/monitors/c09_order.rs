//! C09 – no state is revealed to the peer before its monitor update is durable.
//! O1  update ids handed to chain::Watch are consecutive per channel (replays after a restart carry identical content)
//! O2  a message/action that depends on an update is released only once that update and all earlier ones completed
//! O3  a PaymentPreimage update is handed to Watch in the very call that learned the preimage (claim_funds), even while earlier updates are incomplete
//! O4  with delayed persistence honest peers still never hit a protocol error or close
use super::{Monitor, Verdicts};
use crate::sim::{Obs, World};
use crate::taps::Ev;
use crate::wire::Wire;
use bitcoin::hashes::{sha256, Hash};
use lightning::chain::channelmonitor::VerifStep;
use lightning::events::Event;
use lightning::ln::types::ChannelId;
use std::collections::{BTreeMap, BTreeSet, HashMap};
use vcore::canon;

#[derive(Default)]
struct ChanState {
	new_handed: bool,
	new_id: u64,
	new_complete: bool,
	last_id: Option<u64>,
	handed: BTreeMap<u64, Vec<u8>>,
	incomplete: BTreeSet<u64>,
	completed: BTreeSet<u64>,
	/// synchronous persists logged inside a Watch call whose WatchUpdate event has not been seen yet
	just_persisted: BTreeSet<u64>,
	/// counterparty commitment number -> update id that carried it
	cp_commit_update: BTreeMap<u64, u64>,
	/// most recent update carrying a holder commitment: (update id, commitment number)
	last_holder_update: Option<(u64, u64)>,
	/// payment hash -> (update ids carrying its preimage, step first handed)
	preimage_updates: HashMap<[u8; 32], (Vec<u64>, u64)>,
	restarted: bool,
}

#[derive(Default)]
pub struct OrderMonitor {
	st: HashMap<(usize, ChannelId), ChanState>,
	/// nodes that ran with delayed (async or deferred) persistence at some point
	pub delayed_nodes: BTreeSet<usize>,
	cur_step: u64,
	claims: HashMap<[u8; 32], Vec<u64>>, // hash prefix (6 bytes, padded) -> steps at which claim_funds was called
}

impl OrderMonitor {
	pub fn new() -> Self {
		Self::default()
	}
	fn incomplete_upto(s: &ChanState, id: u64) -> Option<u64> {
		s.incomplete.iter().find(|i| **i <= id).cloned()
	}
}

impl Monitor for OrderMonitor {
	fn name(&self) -> &'static str {
		"C09-order"
	}
	fn on_obs(&mut self, w: &World, o: &Obs, v: &mut Verdicts) {
		match o {
			Obs::Tap(Ev::Step { step, .. }) => self.cur_step = *step,
			Obs::Restarted { node, .. } => {
				for ((n, _), s) in self.st.iter_mut() {
					if n == node {
						s.restarted = true;
						// writes that were in flight when the node stopped are gone; the node will hand them out again
						s.incomplete.clear();
					}
				}
			},
			Obs::Tap(Ev::WatchNew { node, chan, update_id, status }) => {
				let s = self.st.entry((*node, *chan)).or_default();
				s.new_handed = true;
				s.new_id = *update_id;
				s.last_id = Some(*update_id);
				if status.contains("Completed") {
					s.new_complete = true;
				} else {
					self.delayed_nodes.insert(*node);
				}
				v.rep.count("c09_o1_watch_calls");
			},
			Obs::Tap(Ev::WatchUpdate { node, chan, update_id, steps, status, bytes, .. }) => {
				let step_now = self.cur_step;
				let s = self.st.entry((*node, *chan)).or_default();
				v.rep.count("c09_o1_watch_calls");
				// O1
				match s.last_id {
					Some(last) if *update_id == last + 1 => {},
					Some(last) if *update_id <= last && s.restarted => {
						// replay of an in-flight update after restart: identical content required
						v.rep.count("c09_o1_replayed_updates");
						if let Some(prev) = s.handed.get(update_id) {
							// an update that never completed was never durable nor revealed: the restarted node may
							// legitimately build a different update under that id
							if prev != bytes && s.completed.contains(update_id) {
								v.violation("C09", "O1-sequence", "an update id was replayed after restart with different content", format!("node{} chan {} id {}", node, chan, update_id));
							}
						}
					},
					Some(last) => {
						// closed-channel updates after a stale restart may legitimately jump; only gap-free growth is required otherwise
						if !w.chans.iter().any(|c| c.ids.contains(chan) && c.fault.is_some()) {
							v.violation("C09", "O1-sequence", "ChannelMonitorUpdate ids handed to chain::Watch are not consecutive", format!("node{} chan {} id {} after {}", node, chan, update_id, last));
						}
					},
					None => {},
				}
				s.last_id = Some(s.last_id.map(|l| l.max(*update_id)).unwrap_or(*update_id));
				s.handed.insert(*update_id, bytes.clone());
				if s.handed.len() > 64 {
					let k = *s.handed.keys().next().unwrap();
					s.handed.remove(&k);
				}
				// (the persister's synchronous completion is logged before the Watch call returns; for a closed
				// channel the ChainMonitor answers InProgress although the write completed – durable all the same)
				if status.contains("Completed") || s.just_persisted.remove(update_id) {
					s.incomplete.remove(update_id);
					s.completed.insert(*update_id);
				} else {
					s.incomplete.insert(*update_id);
					self.delayed_nodes.insert(*node);
					v.rep.count("c09_updates_in_progress");
					v.rep.max("c09_max_simultaneously_incomplete", s.incomplete.len() as u64);
				}
				for st in steps {
					match st {
						VerifStep::CounterpartyCommitment { commitment_number, .. } => {
							s.cp_commit_update.insert(*commitment_number, *update_id);
							if s.cp_commit_update.len() > 16 {
								let k = *s.cp_commit_update.keys().next_back().unwrap();
								s.cp_commit_update.remove(&k);
							}
						},
						VerifStep::HolderCommitment { commitment_number, .. } => s.last_holder_update = Some((*update_id, *commitment_number)),
						VerifStep::PaymentPreimage { payment_preimage, .. } => {
							let h = sha256::Hash::hash(&payment_preimage.0).to_byte_array();
							let e = s.preimage_updates.entry(h).or_insert((vec![], step_now));
							e.0.push(*update_id);
						},
						_ => {},
					}
				}
			},
			Obs::Tap(Ev::PersistNew { node, chan, in_progress, .. }) => {
				if !*in_progress {
					self.st.entry((*node, *chan)).or_default().new_complete = true;
				}
			},
			Obs::Tap(Ev::PersistUpdate { node, chan, update_id: Some(id), in_progress, .. }) => {
				if !*in_progress {
					let s = self.st.entry((*node, *chan)).or_default();
					if s.incomplete.remove(id) {
						s.completed.insert(*id); // deferred flush of an update handed out earlier
					} else {
						s.just_persisted.insert(*id); // inside the Watch call; the WatchUpdate event follows
					}
				}
			},
			Obs::Tap(Ev::PersistUpdate { node, chan, update_id: None, latest, in_progress }) => {
				// a full-monitor write: everything applied to the monitor so far is durable with it
				if !*in_progress {
					let s = self.st.entry((*node, *chan)).or_default();
					let done: Vec<u64> = s.incomplete.iter().filter(|i| **i <= *latest).cloned().collect();
					for id in done {
						s.incomplete.remove(&id);
						s.completed.insert(id);
					}
				}
			},
			Obs::Tap(Ev::Completed { node, chan, update_id }) => {
				let s = self.st.entry((*node, *chan)).or_default();
				if s.new_handed && *update_id == s.new_id {
					s.new_complete = true;
				}
				s.completed.insert(*update_id);
				if s.incomplete.remove(update_id) {
					v.rep.count("c09_completions_delivered");
					if s.incomplete.iter().any(|i| i < update_id) {
						v.rep.count("c09_completions_out_of_order");
					}
				}
			},
			Obs::Tap(Ev::Broadcast { node, tx, .. }) => {
				// funding transaction broadcast depends on the initial persist
				let txid = tx.compute_txid();
				if let Some(ch) = w.chans.iter().find(|c| c.funding_txid() == Some(txid)) {
					if let Some(s) = self.st.get(&(*node, ch.chan_id())) {
						v.rep.count("c09_o2_rule_evaluations");
						if s.new_handed && !s.new_complete {
							v.violation("C09", "O2-dependency", "funding transaction broadcast before the initial monitor persist completed", format!("node{} chan {}", node, ch.idx));
						}
					}
				}
			},
			Obs::Emit(e) => {
				let ci = match e.chan {
					Some(c) => c,
					None => return,
				};
				let ch = &w.chans[ci];
				let cid = ch.chan_id();
				let key = (e.from, cid);
				match &e.wire {
					Wire::CS(_) => {
						if let (Some(s), Some(cc)) = (self.st.get(&key), &e.commit) {
							if let Some(dep) = s.cp_commit_update.get(&cc.got.num) {
								v.rep.count("c09_o2_rule_evaluations");
								if let Some(bad) = Self::incomplete_upto(s, *dep) {
									v.violation("C09", "O2-dependency", "commitment_signed released while the monitor update it depends on (or an earlier one) is incomplete", format!("node{} chan {} commitment #{} depends on update {} but update {} is in flight", e.from, ci, cc.got.num, dep, bad));
								}
							} else if !e.retrans {
								v.rep.count("c09_o2_cs_without_known_update");
							}
						}
					},
					Wire::RAA(_) if !e.retrans => {
						if let Some(s) = self.st.get(&key) {
							if let Some((dep, _)) = s.last_holder_update {
								v.rep.count("c09_o2_rule_evaluations");
								if let Some(bad) = Self::incomplete_upto(s, dep) {
									v.violation("C09", "O2-dependency", "revoke_and_ack released while the monitor update it depends on (or an earlier one) is incomplete", format!("node{} chan {} depends on update {} but update {} is in flight", e.from, ci, dep, bad));
								}
							}
						}
					},
					// funding_signed is deliberately not held back by the library (nothing can be lost on a
					// funding transaction that has not been accepted yet); channel_ready is.
					Wire::Ready(_) => {
						if let Some(s) = self.st.get(&key) {
							v.rep.count("c09_o2_rule_evaluations");
							if s.new_handed && !s.new_complete {
								v.violation("C09", "O2-dependency", &format!("{} released before the initial monitor persist completed", e.wire.kind()), format!("node{} chan {}", e.from, ci));
							}
						}
					},
					Wire::Error(m) => {
						if ch.fault.is_none() && (self.delayed_nodes.contains(&e.from) || self.delayed_nodes.contains(&e.to)) {
							v.violation("C09", "O4-release", &format!("protocol error between honest peers under delayed persistence: {}", canon(&m.data)), format!("node{} -> node{}: '{}'", e.from, e.to, m.data));
						}
					},
					_ => {},
				}
			},
			Obs::Api { step, call, .. } => {
				if let Some(h) = call.strip_prefix("claim_funds hash=") {
					let mut k = [0u8; 32];
					if let Some(b) = vcore::unhex(h) {
						k[..b.len()].copy_from_slice(&b);
					}
					self.claims.entry(k).or_default().push(*step);
				}
			},
			Obs::Event { node, ev, step } => {
				if let Event::PaymentClaimed { payment_hash, .. } = ev {
					v.rep.count("c09_o2_rule_evaluations");
					let mut found = false;
					let mut durable_somewhere = false;
					let mut first_incomplete: Option<u64> = None;
					for ((n, _), s) in self.st.iter() {
						if n != node {
							continue;
						}
						if let Some((ids, first_step)) = s.preimage_updates.get(&payment_hash.0) {
							found = true;
							// the first update that made the preimage durable on a channel must be complete (the library
							// may later repeat the preimage in further updates of the same channel). For a payment
							// received over several channels the event depends on the preimage being durable in one of
							// the monitors: the claim on the others is replayed from that monitor after a crash.
							if let Some(id) = ids.iter().min() {
								if s.incomplete.contains(id) {
									first_incomplete.get_or_insert(*id);
								} else {
									durable_somewhere = true;
								}
							}
							let mut k = [0u8; 32];
							k[..6].copy_from_slice(&payment_hash.0[..6]);
							if let Some(cs) = self.claims.get(&k) {
								v.rep.count("c09_o3_rule_evaluations");
								// (a claim_funds call on a node that does not know the payment, e.g. right after a restart
								// from an older manager, is a no-op; the call that took effect is what counts)
								if !cs.contains(first_step) {
									v.violation("C09", "O3-preimage-handed-at-once", "the PaymentPreimage update was not handed to chain::Watch in the call that learned the preimage", format!("node{} claim_funds at steps {:?} but update first handed at step {}", node, cs, first_step));
								}
							}
						}
					}
					if !found {
						v.violation("C09", "O2-dependency", "PaymentClaimed emitted but no PaymentPreimage update was ever handed to chain::Watch", format!("node{} step {}", node, step));
					} else if !durable_somewhere {
						v.violation("C09", "O2-dependency", "PaymentClaimed emitted while the PaymentPreimage monitor update is incomplete", format!("node{} update {:?}", node, first_incomplete));
					}
				}
				if let Event::ChannelClosed { channel_id, reason, .. } = ev {
					if let Some(ch) = w.chans.iter().find(|c| c.ids.contains(channel_id)) {
						if ch.fault.is_none() && !ch.coop_close_started && (self.delayed_nodes.contains(&ch.a) || self.delayed_nodes.contains(&ch.b)) {
							v.violation("C09", "O4-release", &format!("channel closed between honest peers under delayed persistence: {}", canon(&format!("{:?}", reason))), format!("node{} chan {}: {:?}", node, ch.idx, reason));
						}
					}
				}
			},
			_ => {},
		}
	}
}
