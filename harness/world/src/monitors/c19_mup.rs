//! C19 (c) – crash-prefix enumeration over the store-operation log of a real
//! MonitorUpdatingPersister (see `mupshadow.rs` for the set-up and the rules R1–R4).
use super::{Monitor, Verdicts};
use crate::mupshadow::{new_mup, Key, RecStore, StoreOp};
use crate::sim::{Obs, World};
use lightning::ln::types::ChannelId;
use std::collections::{BTreeMap, HashMap};
use std::sync::Arc;
use vcore::canon;

#[derive(Default)]
struct NodeState {
	cursor: usize,
	/// every operation applied
	applied: BTreeMap<Key, Vec<u8>>,
	/// lazy removals never applied
	lazy_lost: BTreeMap<Key, Vec<u8>>,
	completed: HashMap<ChannelId, u64>,
}

pub struct MupMonitor {
	st: HashMap<usize, NodeState>,
	rng: vcore::Rng,
}
impl MupMonitor {
	pub fn new() -> Self {
		MupMonitor { st: HashMap::new(), rng: vcore::Rng::new(0xC19) }
	}
}

impl Monitor for MupMonitor {
	fn name(&self) -> &'static str {
		"C19-monitor-persister"
	}
	fn on_obs(&mut self, _w: &World, _o: &Obs, _v: &mut Verdicts) {}
	fn on_settled(&mut self, w: &World, v: &mut Verdicts) {
		for (n, node) in w.nodes.iter().enumerate() {
			let sh = match node.persister.shadow.lock().unwrap().as_ref() {
				Some(s) => s.clone(),
				None => continue,
			};
			let ops: Vec<StoreOp> = {
				let log = sh.store.log.lock().unwrap();
				let st = self.st.entry(n).or_default();
				log[st.cursor..].to_vec()
			};
			// (d) the asynchronous persister: let everything pending complete, judge, collect
			{
				let a = &sh.asynchronous;
				a.pump(true);
				a.judge(None, "A2-still-recoverable");
				for (rule, sig, detail) in a.findings.lock().unwrap().drain(..) {
					v.violation("C19", &rule, &sig, detail);
				}
				for (k, n) in std::mem::take(&mut *a.counters.lock().unwrap()) {
					v.rep.add(k, n);
				}
			}
			let total_new = ops.len();
			// judge at most ~40 crash points per quiescent point, always including the latest
			let stride = 1 + total_new / 40;
			for (i, op) in ops.into_iter().enumerate() {
				let st = self.st.get_mut(&n).unwrap();
				st.cursor += 1;
				match &op {
					StoreOp::Write(k, b) => {
						st.applied.insert(k.clone(), b.clone());
						st.lazy_lost.insert(k.clone(), b.clone());
					},
					StoreOp::Remove(k, lazy) => {
						st.applied.remove(k);
						if !*lazy {
							st.lazy_lost.remove(k);
						}
					},
					StoreOp::Completed(c, id) => {
						let e = st.completed.entry(*c).or_insert(0);
						*e = (*e).max(*id);
						continue;
					},
				}
				if i % stride != 0 && i + 1 != total_new {
					continue;
				}
				v.rep.count("c19_crash_points_materialised");
				let maps = [st.applied.clone(), st.lazy_lost.clone()];
				let completed = st.completed.clone();
				for (variant, map) in maps.into_iter().enumerate() {
					if variant == 1 && self.st[&n].applied == self.st[&n].lazy_lost {
						continue;
					}
					let cleanup = self.rng.chance(1, 3);
					let lazy = self.rng.chance(1, 2);
					self.recover(w, n, &sh, map, &completed, variant == 1, cleanup, lazy, v);
				}
			}
		}
	}
}

impl MupMonitor {
	#[allow(clippy::too_many_arguments)]
	fn recover(&mut self, w: &World, n: usize, sh: &Arc<crate::mupshadow::MupShadow>, map: BTreeMap<Key, Vec<u8>>, completed: &HashMap<ChannelId, u64>, lazy_lost: bool, cleanup: bool, lazy: bool, v: &mut Verdicts) {
		let store = Arc::new(RecStore::from_map(map));
		let max_pending = *self.rng.pick(&[sh.max_pending, sh.max_pending, 0, 7]);
		let (mup, _keys, bcast, fee, logger) = new_mup(store.clone(), n, &w.nodes[n].cfg, w.fee_now, max_pending);
		let ctx = format!("node{} max_pending {} (recovering with {}){}{}", n, sh.max_pending, max_pending, if lazy_lost { ", lazy removals lost" } else { "" }, if cleanup { ", cleanup_stale_updates first" } else { "" });
		if cleanup {
			v.rep.count("c19_r4_cleanups_before_recovery");
			match vcore::guarded(|| mup.cleanup_stale_updates(lazy)) {
				Ok(Ok(())) => {},
				Ok(Err(e)) => {
					v.violation("C19", "R4-cleanup", &format!("cleanup_stale_updates fails on a crashed store: {}", canon(&format!("{:?}", e))), ctx.clone());
					return;
				},
				Err(p) => {
					v.violation("C19", "R4-cleanup", &format!("cleanup_stale_updates panics on a crashed store: {}", canon(&p)), ctx.clone());
					return;
				},
			}
		}
		let mons = match vcore::guarded(|| mup.read_all_channel_monitors_with_updates()) {
			Ok(Ok(m)) => m,
			Ok(Err(e)) => {
				v.violation("C19", "R1-recoverable", &format!("the monitors cannot be read back after a crash between two store operations: {}", canon(&format!("{:?}", e))), ctx);
				return;
			},
			Err(p) => {
				v.violation("C19", "R1-recoverable", &format!("reading the monitors back after a crash panics: {}", canon(&p)), ctx);
				return;
			},
		};
		v.rep.count("c19_r1_recoveries");
		for (chan, id) in completed.iter() {
			v.rep.count("c19_r2_completed_updates_checked");
			let rec = mons.iter().find(|(_, m)| m.channel_id() == *chan);
			let m = match rec {
				Some((_, m)) => m,
				None => {
					v.violation("C19", "R2-includes-completed", if cleanup { "after cleanup_stale_updates a channel whose persistence had been reported complete is missing from the recovered monitors" } else { "a channel whose persistence had been reported complete is missing from the recovered monitors" }, format!("{}: chan {} completed up to {}", ctx, chan, id));
					continue;
				},
			};
			if m.get_latest_update_id() < *id {
				v.violation("C19", "R2-includes-completed", if cleanup { "after cleanup_stale_updates the recovered monitor lacks an update that had been reported persisted" } else { "the recovered monitor lacks an update that had been reported persisted" }, format!("{}: chan {} recovered at update {} but {} had been reported complete", ctx, chan, m.get_latest_update_id(), id));
				continue;
			}
			// R3
			if let Some(snap) = sh.read_snapshot(*chan, m.get_latest_update_id()) {
				let target = snap.current_best_block().height;
				let mut h = m.current_best_block().height;
				while h < target {
					h += 1;
					let b = w.chain.block_at(h);
					let txdata: Vec<(usize, &bitcoin::Transaction)> = b.txs.iter().enumerate().map(|(i, t)| (i + 1, t)).collect();
					m.transactions_confirmed(&b.header, &txdata, b.height, &*bcast, &*fee, &*logger);
					m.best_block_updated(&b.header, b.height, &*bcast, &*fee, &*logger);
				}
				let _ = m.get_and_clear_pending_monitor_events();
				let _ = snap.get_and_clear_pending_monitor_events();
				v.rep.count("c19_r3_recovered_monitor_comparisons");
				if m.current_best_block().height == target && !m.verif_eq_ignoring_in_memory_only_state(&snap) {
					// a monitor with on-chain activity may legitimately depend on when a block arrived relative to
					// an update; only judge channels whose funding is unspent
					let funding_spent = w.chans.iter().find(|c| c.ids.contains(chan)).and_then(|c| c.funding.as_ref()).map(|f| w.chain.spent.contains_key(&bitcoin::OutPoint { txid: f.compute_txid(), vout: 0 })).unwrap_or(true);
					let closing = w.chans.iter().find(|c| c.ids.contains(chan)).map(|c| c.closed || c.fault.is_some()).unwrap_or(false);
					if funding_spent {
						v.rep.count("c19_r3_comparisons_skipped_channel_on_chain");
					} else if closing {
						v.violation("C19", "R3-equals-in-memory", "the recovered monitor of a channel that is being closed unilaterally, brought to the same chain tip, differs from the in-memory monitor as of the same update", format!("{}: chan {} update {}", ctx, chan, m.get_latest_update_id()));
					} else {
						if let Ok(dir) = std::env::var("VERIF_C12_DUMP") {
							use lightning::util::ser::Writeable;
							let _ = std::fs::write(format!("{}/real.bin", dir), &snap.encode());
							let _ = std::fs::write(format!("{}/shadow.bin", dir), &m.encode());
						}
						v.violation("C19", "R3-equals-in-memory", "the recovered monitor, brought to the same chain tip, differs from the in-memory monitor as of the same update", format!("{}: chan {} update {}", ctx, chan, m.get_latest_update_id()));
					}
				}
			} else {
				v.rep.count("c19_r3_no_snapshot_for_recovered_id");
			}
		}
	}
}
