//! On-chain monitor (C06 / C07): judges what the nodes put on the harness chain after a unilateral
//! close, and who owns what once everything has matured and been swept.
//!
//! U1/J1  every transaction a node broadcasts is consensus-valid and final in the context of the
//!        chain at that instant (the chain oracle's verdict is never `Invalid`)
//! U1f    a replacement of a claim (same inputs, same node) never pays a lower feerate
//! U4     (latest-commitment close) each party ends up owning at least its main balance plus every
//!        HTLC it was certainly entitled to, less the on-chain fees of its own transactions; no
//!        non-anchor output of the closing tree is left unowned; claimable balances drain to nothing
//! J2     (revoked commitment) the cheater owns nothing of the closing tree: its balance output,
//!        every HTLC output and the outputs of its second-stage transactions all end up with the
//!        victim (less fees)
//! J4/U2  SpendableOutputs descriptors are actually spendable: the sweep transaction built from them
//!        by the node's own keys is valid
use super::{Monitor, Verdicts};
use crate::chain::TxVerdict;
use crate::onchain::wallet_script;
use crate::sim::{Obs, World};
use crate::taps::{CommitInfo, Ev};
use bitcoin::{OutPoint, Transaction, Txid};
use std::collections::{BTreeSet, HashMap};
use vcore::canon;

pub struct OnchainMonitor {
	commits: HashMap<Txid, (CommitInfo, usize)>, // commitment txid -> (contents, owning = broadcasting node)
	claims: Vec<(usize, String, u32)>,           // (node, hash prefix hex, height of claim_funds)
	relayed_by: HashMap<Txid, usize>,
	/// per node: input set -> last feerate (sat per 1000 weight) relayed
	feerates: HashMap<(usize, Vec<OutPoint>), (u64, Txid)>,
	/// per claim: the chain height (as of the observation stream) at which it was first seen
	first_seen: HashMap<(usize, Vec<OutPoint>), u32>,
	cur_height: u32,
	/// transactions a reorganisation removed from the chain and that have not confirmed again
	reorged: std::collections::HashSet<Txid>,
	judged: bool,
}

impl OnchainMonitor {
	pub fn new() -> Self {
		OnchainMonitor { commits: HashMap::new(), claims: vec![], relayed_by: HashMap::new(), feerates: HashMap::new(), first_seen: HashMap::new(), cur_height: crate::chain::BASE_HEIGHT, reorged: Default::default(), judged: false }
	}
	fn fee_of(w: &World, tx: &Transaction) -> Option<u64> {
		let mut inv = 0u64;
		for i in tx.input.iter() {
			inv += w.chain.all_outputs.get(&i.previous_output)?.value.to_sat();
		}
		Some(inv.saturating_sub(tx.output.iter().map(|o| o.value.to_sat()).sum()))
	}
}

impl Monitor for OnchainMonitor {
	fn name(&self) -> &'static str {
		"onchain"
	}
	fn on_obs(&mut self, w: &World, o: &Obs, v: &mut Verdicts) {
		match o {
			Obs::Tap(Ev::SignCounterparty { node, c, .. }) => {
				if let Some(ch) = w.chans.iter().find(|ch| ch.funding_txid().is_some() && ch.funding_txid() == c.funding) {
					self.commits.insert(c.txid, (c.clone(), ch.peer_of(*node)));
				}
			},
			Obs::Tap(Ev::ValidateHolder { node, c, .. }) => {
				self.commits.insert(c.txid, (c.clone(), *node));
			},
			Obs::Api { node, call, .. } => {
				if let Some(h) = call.strip_prefix("claim_funds hash=") {
					self.claims.push((*node, h.to_string(), w.chain.height()));
				}
			},
			Obs::Event { node, ev: lightning::events::Event::SpendableOutputs { outputs, .. }, .. } => {
				// C11 E2: announcing spendable outputs cannot be undone, so the transaction that holds them must be
				// buried by the anti-reorg depth. Judged against the highest tip the chain ever had (a fork may have
				// lowered the tip since the node drew its conclusion; nodes are never ahead of the chain).
				let depth = lightning::ln::verif_api::timing_constants().anti_reorg_delay;
				for d in outputs {
					use lightning::sign::SpendableOutputDescriptor as D;
					let txid = match d {
						D::StaticOutput { outpoint, .. } => outpoint.txid,
						D::DelayedPaymentOutput(x) => x.outpoint.txid,
						D::StaticPaymentOutput(x) => x.outpoint.txid,
					};
					v.rep.count("c11_e2_spendable_outputs_checked");
					match w.chain.confirmed_at.get(&txid) {
						Some(h) => {
							let confs = w.peak_height.max(w.chain.height()) + 1 - *h;
							if confs == depth {
								v.rep.count("c11_e2_spendable_outputs_announced_at_exactly_the_anti_reorg_depth");
							}
							if confs < depth {
								v.violation("C11", "E2-irreversible-before-burial", "spendable outputs were announced before the transaction holding them was buried by the anti-reorg depth", format!("node{}: outputs of {} announced with {} confirmations (depth {})", node, txid, confs, depth));
							}
						},
						None => v.violation("C11", "E2-irreversible-before-burial", "spendable outputs were announced for a transaction that is not confirmed", format!("node{}: outputs of {}", node, txid)),
					}
				}
			},
			Obs::Reorg { unconfirmed, fork_height, .. } => {
				// a claim whose parent left the chain, or that was first made in a block that is gone, starts afresh
				// (the monitor forgets claims registered above the fork point and builds new ones at the fee level
				// of the moment): U1f follows one claim, not its successor
				let before = self.feerates.len();
				let first_seen = &self.first_seen;
				self.feerates.retain(|k, _| !k.1.iter().any(|i| unconfirmed.contains(&i.txid)) && first_seen.get(k).map(|h| *h <= *fork_height).unwrap_or(true));
				self.first_seen.retain(|k, _| self.feerates.contains_key(k));
				self.cur_height = *fork_height;
				v.rep.add("onchain_u1f_claims_restarted_by_a_reorg_of_their_parent", (before - self.feerates.len()) as u64);
				self.reorged.extend(unconfirmed.iter().cloned());
			},
			Obs::BlockConnected { txids, height, .. } => {
				self.cur_height = *height;
				for t in txids {
					self.reorged.remove(t);
				}
			},
			Obs::Relay { node, tx, verdict, .. } => {
				if *node == usize::MAX {
					return; // the harness acting for a cheater
				}
				let txid = tx.compute_txid();
				self.relayed_by.entry(txid).or_insert(*node);
				if w.funding_txs.contains_key(&txid) {
					return;
				}
				v.rep.count("onchain_u1_broadcasts_validated");
				match verdict {
					TxVerdict::Invalid(why) if why.contains("on an unconfirmed parent") && tx.input.iter().any(|i| self.reorged.contains(&i.previous_output.txid)) => {
						// a claim on an output of a transaction that a reorganisation has just removed: told with
						// `transaction_unconfirmed` about a commitment transaction, the monitor keeps the claims it
						// registered on it and re-offers them before the commitment confirms again
						v.rep.count("onchain_rebroadcasts_on_a_parent_that_is_reorganised_away");
					},
					TxVerdict::Invalid(why) if why.ends_with("[tip below the highest tip seen]") && (why.contains("not final at height") || why.contains("BIP68 needs")) => {
						// a reorganisation lowered the tip below the height at which this transaction had become final
						// (neither C06 nor C07 quantifies over reorganisations; the node re-offers it every block)
						v.rep.count("onchain_rebroadcasts_not_final_any_more_after_a_reorg");
					},
					TxVerdict::Invalid(why) => {
						let prop = if w.close.as_ref().map(|c| c.revoked).unwrap_or(false) { "C06" } else { "C07" };
						v.violation(prop, "U1-valid-broadcast", &format!("a node broadcast a transaction that is not valid and final: {}", canon(why.split(": ").nth(1).unwrap_or(why))), format!("node{}: {}", node, why));
					},
					TxVerdict::Conflict => v.rep.count("onchain_broadcasts_conflicting_with_a_confirmed_spend"),
					_ => {
						// U1f: same node, same inputs => feerate never goes down
						// (what is issued while the parent is off the chain after a reorganisation belongs to the claim
						// that ended with it)
						if tx.input.iter().any(|i| self.reorged.contains(&i.previous_output.txid)) {
							v.rep.count("onchain_u1f_broadcasts_on_a_parent_that_is_reorganised_away");
						} else if let Some(fee) = Self::fee_of(w, tx) {
							let mut ins: Vec<OutPoint> = tx.input.iter().map(|i| i.previous_output).collect();
							ins.sort();
							// feerate in millisat per weight unit; integer rounding of fee = feerate * weight jitters it by
							// a fraction of a percent between two signings of the same claim, which is not a decrease
							let rate = fee * 1_000_000 / tx.weight().to_wu().max(1);
							if let Some((prev, ptx)) = self.feerates.get(&(*node, ins.clone())) {
								if *ptx != txid {
									v.rep.count("onchain_u1f_replacements_checked");
									// (a signature one byte longer adds a weight unit: on the smallest claims, some 200 weight
									// units, that alone moves the rate by half a percent at an unchanged fee; two percent is no jitter)
									if rate * 100 < *prev * 98 {
										let prop = if w.close.as_ref().map(|c| c.revoked).unwrap_or(false) { "C06" } else { "C07" };
										v.violation(prop, "U1f-fee-monotone", "a claim was re-issued with a lower feerate than before", format!("node{}: {} msat/wu after {} msat/wu (tx {} after {})", node, rate, prev, txid, ptx));
									}
								}
							}
							self.first_seen.entry((*node, ins.clone())).or_insert(self.cur_height);
							self.feerates.insert((*node, ins), (rate, txid));
						}
					},
				}
				if let Obs::Relay { .. } = o {
					if let Some(rest) = Some(()) {
						let _ = rest;
					}
				}
			},
			_ => {},
		}
	}
	fn on_end(&mut self, w: &World, v: &mut Verdicts) {
		if !w.onchain_done || self.judged {
			return;
		}
		self.judged = true;
		let close = match &w.close {
			Some(c) => c.clone(),
			None => return,
		};
		let ch = &w.chans[close.chan];
		let mut prop = if close.revoked { "C06" } else { "C07" };
		let funding = match ch.funding.as_ref() {
			Some(f) => OutPoint { txid: f.compute_txid(), vout: 0 },
			None => return,
		};
		let t_txid = match w.chain.spent.get(&funding) {
			Some((t, _)) => *t,
			None => {
				v.violation(prop, "U4-recovery", "the channel was closed but no commitment transaction ever confirmed", format!("chan {}", close.chan));
				return;
			},
		};
		if close.revoked && close.commitment_txid != Some(t_txid) {
			prop = "C07";
		}
		// the closing tree
		let mut txs: HashMap<Txid, Transaction> = HashMap::new();
		for b in w.chain.blocks.iter() {
			for t in b.txs.iter() {
				txs.insert(t.compute_txid(), t.clone());
			}
		}
		let mut tree: Vec<Txid> = vec![t_txid];
		let mut terminals: Vec<(OutPoint, u64, bitcoin::ScriptBuf)> = vec![];
		let mut seen: BTreeSet<Txid> = BTreeSet::new();
		seen.insert(t_txid);
		let mut qi = 0;
		while qi < tree.len() {
			let txid = tree[qi];
			qi += 1;
			let tx = match txs.get(&txid) {
				Some(t) => t,
				None => continue,
			};
			for (k, o) in tx.output.iter().enumerate() {
				let op = OutPoint { txid, vout: k as u32 };
				match w.chain.spent.get(&op) {
					Some((s, _)) => {
						if seen.insert(*s) {
							tree.push(*s);
						}
					},
					None => terminals.push((op, o.value.to_sat(), o.script_pubkey.clone())),
				}
			}
		}
		let t = &txs[&t_txid];
		let t_out: u64 = t.output.iter().map(|o| o.value.to_sat()).sum();
		let nodes = [ch.a, ch.b];
		let mut owned: HashMap<usize, u64> = HashMap::new();
		let mut unowned: Vec<(OutPoint, u64)> = vec![];
		for (op, val, script) in terminals.iter() {
			match nodes.iter().find(|n| wallet_script(**n) == *script || crate::onchain::coin_script(**n) == *script) {
				Some(n) => *owned.entry(*n).or_default() += *val,
				None => {
					// reported to a node as spendable (it holds the keys), but not worth a sweep transaction
					match w.spendable.iter().find(|(_, d)| crate::onchain::outpoint_of(d) == *op) {
						Some((n, _)) => *owned.entry(*n).or_default() += *val,
						None => unowned.push((*op, *val)),
					}
				},
			}
		}
		let mut fees: HashMap<usize, u64> = HashMap::new();
		// wallet coins a node added to transactions of the tree (anchor bumps): not part of the channel's value
		let mut contributed: HashMap<usize, u64> = HashMap::new();
		for txid in tree.iter().skip(1) {
			if let (Some(tx), Some(n)) = (txs.get(txid), self.relayed_by.get(txid)) {
				*fees.entry(*n).or_default() += Self::fee_of(w, tx).unwrap_or(0);
				for i in tx.input.iter() {
					if !seen.contains(&i.previous_output.txid) {
						*contributed.entry(*n).or_default() += w.chain.all_outputs.get(&i.previous_output).map(|o| o.value.to_sat()).unwrap_or(0);
					}
				}
			}
		}
		for (n, c) in contributed.iter() {
			let o = owned.entry(*n).or_default();
			*o = o.saturating_sub(*c);
			// (what the wallet put in and the node did not get back was spent on fees by that node; it is
			// already counted in `fees`, so entitlement comparisons stay in channel value)
			let _ = c;
		}
		if std::env::var("VERIF_ONCHAIN_DUMP").is_ok() {
			for txid in tree.iter() {
				if let Some(tx) = txs.get(txid) {
					eprintln!("TREE tx {} by {:?} h={:?} fee={:?} ins={:?} outs={:?}", txid, self.relayed_by.get(txid), w.chain.confirmed_at.get(txid), Self::fee_of(w, tx), tx.input.iter().map(|i| (i.previous_output.txid.to_string()[..8].to_string(), i.previous_output.vout, w.chain.all_outputs.get(&i.previous_output).map(|o| o.value.to_sat()))).collect::<Vec<_>>(), tx.output.iter().map(|o| o.value.to_sat()).collect::<Vec<_>>());
				}
			}
			eprintln!("TREE owned {:?} fees {:?} contributed {:?} unowned {:?}", owned, fees, contributed, unowned);
		}
		// with a fee-sensitive miner and a fee level that may have risen to 12 000 sat/kw, outputs that are not
		// worth the fee of claiming them legitimately stay unclaimed
		let small: u64 = if w.fee_market_used { 20_000 } else { 330 };
		v.rep.count("onchain_ledgers_judged");
		v.rep.add("onchain_tree_transactions", tree.len() as u64);
		v.rep.max("onchain_max_tree_transactions", tree.len() as u64);
		// nothing may be left behind except anchors
		for (op, val) in unowned.iter() {
			v.rep.count("onchain_unowned_terminal_outputs");
			if *val > small {
				v.violation(prop, "U4-recovery", "an output of the closing transaction tree was never recovered by anyone", format!("chan {}: {} worth {} sat is still unspent and belongs to no wallet (tree of {} transactions)", close.chan, op, val, tree.len()));
			}
		}
		// balances drain to nothing
		for n in nodes.iter() {
			let left: Vec<lightning::chain::channelmonitor::Balance> = w.nodes[*n].mon.get_claimable_balances(&[]).into_iter().filter(|b| b.claimable_amount_satoshis() > small || !w.fee_market_used).collect();
			if !left.is_empty() {
				v.violation(prop, "U2-balances-drain", "claimable balances remain after every output matured and was swept", format!("node{}: {:?}", n, left).chars().take(600).collect());
			}
		}
		let (bc, other) = (close.broadcaster, ch.peer_of(close.broadcaster));
		// (the cheater's transaction may lose the race against a party's latest commitment)
		let revoked_confirmed = close.revoked && close.commitment_txid == Some(t_txid);
		if close.revoked && !revoked_confirmed {
			v.rep.count("onchain_revoked_commitment_lost_the_race");
		}
		if revoked_confirmed {
			v.rep.count("c06_j2_revoked_closes_judged");
			let cheater_owned = owned.get(&bc).cloned().unwrap_or(0);
			let victim = owned.get(&other).cloned().unwrap_or(0) + fees.get(&other).cloned().unwrap_or(0);
			let anchors: u64 = unowned.iter().filter(|(_, v)| *v <= small).map(|(_, v)| *v).sum();
			v.rep.add("c06_j2_outputs_of_revoked_commitments", t.output.len() as u64);
			v.rep.add("c06_j2_attacker_second_stage_txs_confirmed", tree.iter().skip(1).filter(|x| close.attacker_txids.contains(x)).count() as u64);
			// (under a fee-sensitive miner the victim rationally leaves outputs that are not worth their claim fee)
			if cheater_owned > if w.fee_market_used { small } else { 0 } {
				v.violation("C06", "J2-full-punishment", "the cheating party kept funds from its revoked commitment", format!("chan {}: cheater node{} owns {} sat of the closing tree (victim {} sat incl. fees, commitment outputs {} sat)", close.chan, bc, cheater_owned, victim, t_out));
			}
			// attacker-paid fees of its second-stage transactions are burnt, not the victim's loss
			let attacker_fees: u64 = tree.iter().skip(1).filter(|x| close.attacker_txids.contains(x)).filter_map(|x| txs.get(x)).map(|tx| Self::fee_of(w, tx).unwrap_or(0)).sum();
			// (so are the fees of what the cheating node's own monitor broadcast on top of its revoked commitment,
			// e.g. an HTLC claim with a preimage it learned after the close)
			let attacker_fees = attacker_fees + fees.get(&bc).cloned().unwrap_or(0);
			if victim + anchors + attacker_fees + cheater_owned < t_out {
				v.violation("C06", "J2-full-punishment", "value of the revoked commitment is unaccounted for", format!("chan {}: commitment outputs {} sat, victim {} (incl. its fees), anchors {}, attacker fees {}", close.chan, t_out, victim, anchors, attacker_fees));
			}
			return;
		}
		// latest-commitment close: entitlement from the commitment's contents and the ground truth
		let (ci, owner) = match self.commits.get(&t_txid) {
			Some(x) => x.clone(),
			None => {
				v.rep.count("onchain_commitment_contents_unknown");
				return;
			},
		};
		if owner != bc {
			v.rep.count("onchain_commitment_confirmed_of_the_other_party");
		}
		// was it, for the party that did not broadcast it, the previous (unrevoked) counterparty commitment?
		if let Some((signer, num)) = w.cp_commit_numbers.get(&t_txid) {
			if w.cp_commit_numbers.values().any(|(s2, n2)| s2 == signer && n2 < num) {
				v.rep.count("c07_u4_closes_by_a_previous_unrevoked_counterparty_commitment");
			}
		}
		let (bc, other) = (owner, ch.peer_of(owner));
		let dust = ch.model.as_ref().map(|m| m.p.dust[ch.party(bc)]).unwrap_or(354);
		let mut ent: HashMap<usize, u64> = HashMap::new();
		let dust = if w.fee_market_used { small } else { dust };
		if ci.to_broadcaster_sat >= dust {
			*ent.entry(bc).or_default() += ci.to_broadcaster_sat;
		}
		if ci.to_countersignatory_sat >= dust {
			*ent.entry(other).or_default() += ci.to_countersignatory_sat;
		}
		let close_h = w.chain.confirmed_at.get(&t_txid).cloned().unwrap_or(close.height);
		for h in ci.nondust.iter() {
			let (offerer, claimant) = if h.offered { (bc, other) } else { (other, bc) };
			let pre = vcore::hex(&h.hash[..6]);
			let known_at = self.claims.iter().filter(|(n, p, _)| *n == claimant && *p == pre).map(|(_, _, ht)| *ht).min();
			v.rep.count("c07_u4_htlc_outputs_judged");
			if w.fee_market_used && h.amount_msat / 1000 < small {
				v.rep.count("c07_u4_htlc_outputs_not_worth_their_fee");
				continue;
			}
			// (with a fee-sensitive miner a claim may legitimately miss its deadline when the fee level rises
			// during the last ten blocks before it: nothing re-issued then is sure to be mined in time)
			let late_rise = w.fee_market_used && w.fee_rises.iter().any(|r| *r + 10 >= h.cltv && *r <= h.cltv);
			if late_rise && known_at.is_some() {
				v.rep.count("c07_u4_htlc_outputs_with_a_fee_rise_near_the_expiry");
			}
			// C03 on chain (latest-commitment closes): everything has matured, so the payer of an HTLC that went to the
			// chain has been told how its payment ended - PaymentSent only if the recipient's user released the preimage
			if prop == "C07" && !w.late_update && !late_rise {
				v.rep.count("c03_onchain_htlcs_of_payers_judged");
				if !w.terminal_seen.contains(&(offerer, h.hash)) {
					v.violation("C03", "P2-P3-terminal-event-after-onchain-resolution", "the payer of an HTLC that was resolved on chain was never told how its payment ended although everything on chain has matured", format!("node{} hash {} (HTLC of {} msat expiring at {}, preimage released: {})", offerer, pre, h.amount_msat, h.cltv, known_at.is_some()));
				} else if w.sent_seen.contains(&(offerer, h.hash)) && known_at.is_none() {
					v.violation("C03", "P1-truthful-sent", "PaymentSent for an HTLC resolved on chain although the recipient's user never released the preimage", format!("node{} hash {}", offerer, pre));
				} else if w.sent_seen.contains(&(offerer, h.hash)) {
					v.rep.count("c03_onchain_htlcs_reported_payment_sent");
				} else {
					v.rep.count("c03_onchain_htlcs_reported_payment_failed");
				}
				if w.sent_seen.contains(&(offerer, h.hash)) && w.failed_seen.contains(&(offerer, h.hash)) {
					v.rep.count("c03_onchain_hashes_with_both_payment_sent_and_payment_failed_observed");
				}
			}
			match known_at {
				None => *ent.entry(offerer).or_default() += h.amount_msat / 1000,
				Some(kh) if kh.max(close_h) + 40 <= h.cltv && !late_rise => {
					if kh > close_h {
						v.rep.count("c07_u4_htlc_outputs_claimable_by_a_preimage_learned_after_the_close");
					}
					*ent.entry(claimant).or_default() += h.amount_msat / 1000
				},
				Some(_) => v.rep.count("c07_u4_htlc_outputs_either_way"),
			}
		}
		v.rep.count("c07_u4_latest_commitment_closes_judged");
		for n in [bc, other] {
			let have = owned.get(&n).cloned().unwrap_or(0) + fees.get(&n).cloned().unwrap_or(0);
			let want = ent.get(&n).cloned().unwrap_or(0);
			if have < want {
				v.violation("C07", "U4-recovery", "a party recovered less than its balance plus the HTLCs it was entitled to, net of its own on-chain fees", format!("chan {} node{}: owns {} sat + paid {} sat fees < entitled {} sat (commitment of node{}: to_broadcaster {} to_countersignatory {} htlcs {:?})", close.chan, n, owned.get(&n).cloned().unwrap_or(0), fees.get(&n).cloned().unwrap_or(0), want, bc, ci.to_broadcaster_sat, ci.to_countersignatory_sat, ci.nondust.iter().map(|h| (h.offered, h.amount_msat / 1000, h.cltv)).collect::<Vec<_>>()));
			}
		}
	}
}
