//! C05 – revoked state is never used and state is never revoked early. Pure observer of the
//! signer, wire and broadcast taps; its state is the outside world's knowledge and survives
//! node restarts.
use super::{Monitor, Verdicts};
use crate::sim::{Obs, World};
use crate::taps::Ev;
use crate::wire::Wire;
use bitcoin::secp256k1::{PublicKey, Secp256k1, SecretKey};
use bitcoin::Txid;
use std::collections::{BTreeMap, HashMap};

#[derive(Default)]
struct ChanSide {
	/// own (holder) commitments this node validated: number -> (txid, per-commitment point)
	holder: BTreeMap<u64, (Txid, PublicKey)>,
	/// secrets of own commitments released: index list (descending numbers)
	released: Vec<u64>,
	/// counterparty commitments this node signed: number -> (txid, point)
	counterparty: BTreeMap<u64, (Txid, PublicKey)>,
	/// counterparty revocations validated: number -> secret
	revoked_cp: BTreeMap<u64, [u8; 32]>,
	/// next points this node announced in its revoke_and_ack: number -> point
	announced: BTreeMap<u64, PublicKey>,
	last_raa: Option<([u8; 32], PublicKey)>,
	/// true while the scenario extracts "attacker" transactions through the unsafe API
	unsafe_window: bool,
}

pub struct RevokeMonitor {
	sides: HashMap<(usize, [u8; 32]), ChanSide>,
	/// own commitment txid -> (node, keys, number)
	own_txids: HashMap<Txid, (usize, [u8; 32], u64)>,
	keymap: HashMap<(usize, usize), [u8; 32]>, // (node, chan idx) -> keys
	secp: Secp256k1<bitcoin::secp256k1::All>,
	pub unsafe_nodes: Vec<usize>,
}

impl RevokeMonitor {
	pub fn new() -> Self {
		RevokeMonitor { sides: HashMap::new(), own_txids: HashMap::new(), keymap: HashMap::new(), secp: Secp256k1::new(), unsafe_nodes: vec![] }
	}
	fn point_of(&self, secret: &[u8; 32]) -> Option<PublicKey> {
		SecretKey::from_slice(secret).ok().map(|s| PublicKey::from_secret_key(&self.secp, &s))
	}
}
impl Default for RevokeMonitor {
	fn default() -> Self {
		Self::new()
	}
}

impl Monitor for RevokeMonitor {
	fn name(&self) -> &'static str {
		"C05-revoke"
	}
	fn on_obs(&mut self, w: &World, o: &Obs, v: &mut Verdicts) {
		match o {
			Obs::Tap(Ev::Step { desc, .. }) => {
				let _ = desc;
			},
			Obs::Tap(Ev::ValidateHolder { node, keys, c }) => {
				let announced = self.sides.get(&(*node, *keys)).and_then(|s| s.announced.get(&c.num).cloned());
				let s = self.sides.entry((*node, *keys)).or_default();
				if let Some((t, _)) = s.holder.get(&c.num) {
					if *t != c.txid {
						v.rep.count("c05_holder_commitment_replaced_same_number");
					}
				}
				if let Some(&min_rel) = s.released.iter().min() {
					if c.num >= min_rel {
						v.violation("C05", "V2-revoked-unused", "node accepts a holder commitment whose number it has already revoked", format!("node{} validates holder commitment #{} after releasing secret #{}", node, c.num, min_rel));
					}
				}
				if let Some(p) = announced {
					v.rep.count("c05_v4_next_point_checked");
					if p != c.point {
						v.violation("C05", "V4-raa-content", "holder commitment built on a per-commitment point other than the one announced in revoke_and_ack", format!("node{} commitment #{}", node, c.num));
					}
				}
				s.holder.insert(c.num, (c.txid, c.point));
				self.own_txids.insert(c.txid, (*node, *keys, c.num));
			},
			Obs::Tap(Ev::ReleaseSecret { node, keys, idx }) => {
				let s = self.sides.entry((*node, *keys)).or_default();
				v.rep.count("c05_v1_release_checked");
				// V1: a fully signed newer commitment (number idx-1) must be held
				if !s.holder.contains_key(&(idx - 1)) {
					v.violation("C05", "V1-no-early-revocation", "revocation secret released before a newer signed commitment is held", format!("node{} releases secret #{} but never validated holder commitment #{}", node, idx, idx - 1));
				}
				if !s.released.contains(idx) {
					s.released.push(*idx);
				}
			},
			Obs::Tap(Ev::SignHolder { node, keys, num, .. }) | Obs::Tap(Ev::SignHolderHtlc { node, keys, num, .. }) => {
				if let Some(s) = self.sides.get(&(*node, *keys)) {
					v.rep.count("c05_v2_holder_signing_checked");
					// (the harness itself put a revoked commitment of this node on the chain, signed earlier through the
					// unsafe API: what the node's monitor does with its outputs afterwards is not the node using revoked
					// state of its own accord, and is outside this property's quantifier)
					let cheated_for = w.close.as_ref().map(|c| c.revoked && c.broadcaster == *node).unwrap_or(false);
					if cheated_for {
						v.rep.count("c05_v2_signings_after_the_harness_broadcast_this_nodes_revoked_commitment");
					}
					if !s.unsafe_window && !self.unsafe_nodes.contains(node) && !cheated_for {
						if let Some(&min_rel) = s.released.iter().min() {
							if *num >= min_rel {
								v.violation("C05", "V2-revoked-unused", "node signs a holder commitment or HTLC transaction of a revoked state", format!("node{} signs for commitment #{} although secret #{} was released", node, num, min_rel));
							}
						}
					}
				}
			},
			Obs::Tap(Ev::SignCounterparty { node, keys, c }) => {
				if let Some(ft) = c.funding {
					if let Some(ch) = w.chans.iter().find(|ch| ch.funding_txid() == Some(ft)) {
						self.keymap.insert((*node, ch.idx), *keys);
					}
				}
				let s = self.sides.entry((*node, *keys)).or_default();
				v.rep.count("c05_v3_counterparty_signing_checked");
				match s.counterparty.get(&c.num) {
					Some((t, _)) => {
						if *t != c.txid {
							v.violation("C05", "V3-counterparty-sequence", "same counterparty commitment number signed with different contents", format!("node{} #{}: {} vs {}", node, c.num, t, c.txid));
						}
					},
					None => {
						if let Some((&lowest, _)) = s.counterparty.iter().next() {
							if c.num + 1 != lowest {
								v.violation("C05", "V3-counterparty-sequence", "counterparty commitment numbers do not advance by exactly one", format!("node{} signs #{} after #{}", node, c.num, lowest));
							}
							// at most one earlier unrevoked: everything older than the predecessor must be revoked
							for (n, _) in s.counterparty.iter().filter(|(n, _)| **n > c.num + 1) {
								if !s.revoked_cp.contains_key(n) {
									v.violation("C05", "V3-counterparty-sequence", "new counterparty commitment signed while more than one earlier commitment is unrevoked", format!("node{} signs #{} while #{} is unrevoked", node, c.num, n));
									break;
								}
							}
						}
						s.counterparty.insert(c.num, (c.txid, c.point));
					},
				}
			},
			Obs::Tap(Ev::ValidateRevocation { node, keys, idx, secret }) => {
				let pt = self.point_of(secret);
				let s = self.sides.entry((*node, *keys)).or_default();
				v.rep.count("c05_v5_revocation_secret_checked");
				match s.counterparty.get(idx) {
					Some((_, point)) => {
						if pt != Some(*point) {
							v.violation("C05", "V5-secret-check", "a revocation secret that does not match the announced per-commitment point reached storage", format!("node{} accepts secret for #{}", node, idx));
						}
					},
					None => v.violation("C05", "V5-secret-check", "revocation accepted for a commitment this node never signed", format!("node{} #{}", node, idx)),
				}
				s.revoked_cp.insert(*idx, *secret);
			},
			Obs::Tap(Ev::WatchUpdate { node, steps, .. }) => {
				for st in steps {
					if let lightning::chain::channelmonitor::VerifStep::CommitmentSecret { idx, secret } = st {
						// the stored secret must be one that was validated against the announced point
						let ok = self.sides.iter().any(|((n, _), s)| n == node && s.revoked_cp.get(idx) == Some(secret));
						v.rep.count("c05_v5_stored_secret_checked");
						if !ok {
							v.violation("C05", "V5-secret-check", "a counterparty secret was stored in the monitor without having been validated", format!("node{} CommitmentSecret step idx {}", node, idx));
						}
					}
				}
			},
			Obs::Tap(Ev::Broadcast { node, tx, .. }) => {
				let txid = tx.compute_txid();
				let check = |t: &Txid, what: &str, v: &mut Verdicts| {
					if let Some((n, keys, num)) = self.own_txids.get(t) {
						if n == node {
							if let Some(s) = self.sides.get(&(*n, *keys)) {
								v.rep.count("c05_v2_broadcast_checked");
								if let Some(&min_rel) = s.released.iter().min() {
									let cheated_for = w.close.as_ref().map(|c| c.revoked && c.broadcaster == *node).unwrap_or(false);
									if *num >= min_rel && !self.unsafe_nodes.contains(node) && !cheated_for {
										v.violation("C05", "V2-revoked-unused", &format!("node broadcasts {} of a holder commitment it has revoked", what), format!("node{} broadcasts {} (commitment #{}, secret #{} released)", node, txid, num, min_rel));
									}
								}
							}
						}
					}
				};
				check(&txid, "the commitment transaction", v);
				for i in tx.input.iter() {
					check(&i.previous_output.txid, "a transaction spending an output", v);
				}
			},
			Obs::Emit(e) => {
				if let (Wire::RAA(m), Some(ci)) = (&e.wire, e.chan) {
					if let Some(keys) = self.keymap.get(&(e.from, ci)).cloned() {
						let pt = self.point_of(&m.per_commitment_secret);
						let s = self.sides.entry((e.from, keys)).or_default();
						v.rep.count("c05_v4_raa_checked");
						if e.retrans {
							if let Some((sec, np)) = &s.last_raa {
								v.rep.count("c05_v6_retransmitted_raa_checked");
								if *sec != m.per_commitment_secret || *np != m.next_per_commitment_point {
									v.violation("C05", "V6-retransmission", "retransmitted revoke_and_ack differs from the original", format!("node{} chan {}", e.from, ci));
								}
							}
						} else {
							// the secret must be that of the most recently released own commitment number
							if let Some(&idx) = s.released.iter().min() {
								match s.holder.get(&idx) {
									Some((_, point)) => {
										if pt != Some(*point) {
											v.violation("C05", "V4-raa-content", "revoke_and_ack carries a secret that is not the one of the commitment just superseded", format!("node{} chan {} released #{}", e.from, ci, idx));
										}
									},
									None => {},
								}
								if idx >= 2 {
									s.announced.insert(idx - 2, m.next_per_commitment_point);
								}
							} else {
								v.violation("C05", "V4-raa-content", "revoke_and_ack sent without the signer having released a secret", format!("node{} chan {}", e.from, ci));
							}
							s.last_raa = Some((m.per_commitment_secret, m.next_per_commitment_point));
						}
					}
				}
			},
			_ => {},
		}
	}
}
