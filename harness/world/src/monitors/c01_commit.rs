//! C01 – every commitment conserves the channel's funds; peers agree; honest operation never
//! fails; cooperative close pays final balances; reported send limits are exact.
use super::{Monitor, Verdicts};
use crate::model::HtlcPhase;
use crate::sim::{Obs, Probe, World};
use crate::taps::Ev;
use crate::wire::Wire;
use lightning::events::{ClosureReason, Event};
use std::collections::HashMap;
use vcore::canon;

#[derive(Default)]
pub struct CommitMonitor {
	keymap: HashMap<(usize, [u8; 32]), usize>,
	pub probes: Vec<Probe>,
}

impl CommitMonitor {
	pub fn new() -> Self {
		Self::default()
	}
}

fn mismatch_class(m: &str) -> String {
	canon(m.split(':').next().unwrap_or(m))
}

impl Monitor for CommitMonitor {
	fn name(&self) -> &'static str {
		"C01-commit"
	}
	fn on_obs(&mut self, w: &World, o: &Obs, v: &mut Verdicts) {
		match o {
			Obs::Probe(p) => self.probes.push(p.clone()),
			// a node that stopped in the middle of a probe never let its HTLC escape: the probe is void
			Obs::Restarted { node, .. } => self.probes.retain(|p| p.judged || (p.node != *node && p.dst != *node)),
			Obs::Tap(Ev::SignCounterparty { node, keys, c }) => {
				if let Some(ft) = c.funding {
					if let Some(ch) = w.chans.iter().find(|ch| ch.funding_txid() == Some(ft)) {
						self.keymap.insert((*node, *keys), ch.idx);
					}
				}
				v.rep.count("c01_sign_counterparty_events");
			},
			Obs::Tap(Ev::ValidateHolder { node, keys, c }) => {
				// R4: the commitment a node accepts is the one its peer signed for that number
				if let Some(ci) = self.keymap.get(&(*node, *keys)) {
					let ch = &w.chans[*ci];
					let party = ch.party(*node);
					v.rep.count("c01_r4_validate_holder_checked");
					match ch.signed_txids[1 - party].get(&c.num) {
						Some(t) if *t == c.txid => {},
						Some(t) => v.violation("C01", "R4-agreement", "holder validates a commitment that differs from the one the peer signed for that number", format!("chan {} node{} validates commitment #{} txid {} but peer signed {}", ci, node, c.num, c.txid, t)),
						None => {},
					}
				}
			},
			Obs::Tap(Ev::SignClosing { node, keys, value_sat, to_holder_sat, to_counterparty_sat, .. }) => {
				if let Some(ci) = self.keymap.get(&(*node, *keys)) {
					let ch = &w.chans[*ci];
					if let Some(md) = &ch.model {
						v.rep.count("c01_r6_closing_tx_checked");
						let party = ch.party(*node);
						if md.has_pending_updates() {
							v.violation("C01", "R6-coop-close", "closing transaction signed while updates are still pending", format!("chan {} node{}", ci, node));
						}
						let bal = [md.base_msat[0] / 1000, md.base_msat[1] / 1000];
						let amounts = if party == 0 { [*to_holder_sat, *to_counterparty_sat] } else { [*to_counterparty_sat, *to_holder_sat] };
						let funder = md.p.funder;
						let other = 1 - funder;
						let dust_ok = |amt: u64, b: u64| amt == b || (amt == 0 && b < 1000);
						if !dust_ok(amounts[other], bal[other]) {
							v.violation("C01", "R6-coop-close", "non-funder's closing output differs from its final balance", format!("chan {} node{} signs closing tx paying non-funder {} but final balance is {}", ci, node, amounts[other], bal[other]));
						}
						if amounts[funder] > bal[funder] {
							v.violation("C01", "R6-coop-close", "funder's closing output exceeds its final balance", format!("chan {} funder gets {} balance {}", ci, amounts[funder], bal[funder]));
						}
						if amounts[0] + amounts[1] > *value_sat {
							v.violation("C01", "R6-coop-close", "closing outputs exceed the channel value", format!("chan {} {:?} value {}", ci, amounts, value_sat));
						}
						let fee = value_sat.saturating_sub(amounts[0] + amounts[1]);
						let trimmed = (if amounts[other] == 0 { bal[other] } else { 0 }) + (if amounts[funder] == 0 { bal[funder] } else { 0 });
						// the fee beyond trimmed dust is what the funder pays; it must come out of the funder's balance only
						if amounts[funder] > 0 && bal[funder].saturating_sub(amounts[funder]) + trimmed + 2 < fee {
							v.violation("C01", "R6-coop-close", "closing fee not accounted for by the funder's balance", format!("chan {} fee {} funder paid {} trimmed {}", ci, fee, bal[funder].saturating_sub(amounts[funder]), trimmed));
						}
					}
				}
			},
			Obs::Emit(e) => {
				if let Some(cc) = &e.commit {
					v.rep.count("c01_commitments_checked");
					if cc.initial {
						v.rep.count("c01_initial_commitments_checked");
					}
					if let Ok(exp) = &cc.expected {
						v.rep.max("c01_max_nondust_htlcs", exp.nondust.len() as u64);
						if exp.n_dust > 0 {
							v.rep.count("c01_commitments_with_dust_htlcs");
						}
						if let Some(md) = &w.chans[cc.chan].model {
							let (adds, rem, fee, unacked) = md.shape();
							let h = vcore::Fnv::new().u64(adds.min(8) as u64).u64(rem.min(6) as u64).u64(fee.min(2) as u64).u64(unacked.min(6) as u64).u64(exp.nondust.len().min(12) as u64).u64(exp.n_dust.min(6) as u64).u64(w.chans[cc.chan].ctype as u64).u64((exp.to_broadcaster_sat == 0) as u64).u64((exp.to_countersignatory_sat == 0) as u64).get();
							v.rep.distinct(h);
						}
					}
					if let Some(m) = &cc.mismatch {
						v.violation("C01", "R1-R3-model", &format!("signed commitment disagrees with the BOLT-2/3 reference model: {}", mismatch_class(m)), format!("chan {} (type {:?}) signer party {} commitment #{}: {}", cc.chan, w.chans[cc.chan].ctype, cc.signer_party, cc.got.num, m));
					}
				}
				if e.retrans {
					v.rep.count("c01_retransmitted_messages");
				}
				match &e.wire {
					Wire::Error(m) => {
						let fault = e.chan.and_then(|c| w.chans[c].fault.clone());
						v.rep.count("c01_r5_error_messages_seen");
						if fault.is_none() {
							v.violation("C01", "R5-no-honest-failure", &format!("protocol error between honest peers: {}", canon(&m.data)), format!("node{} -> node{}: error '{}' (chan {:?})", e.from, e.to, m.data, e.chan));
						}
					},
					Wire::Add(m) => {
						for p in self.probes.iter_mut().filter(|p| p.hash == m.payment_hash.0 && p.add_seen.is_none()) {
							p.add_seen = Some(m.htlc_id);
						}
					},
					_ => {},
				}
				if let (Wire::Fail(m), Some(ci)) = (&e.wire, e.chan) {
					// a recipient failing back an HTLC that a probe sent inside the limits
					let ch = &w.chans[ci];
					let owner_party = 1 - ch.party(e.from);
					for p in self.probes.iter_mut().filter(|p| p.chan == ci && p.add_seen == Some(m.htlc_id) && ch.party(p.node) == owner_party) {
						p.failed_back = true;
					}
				}
			},
			Obs::Event { node, ev, .. } => match ev {
				Event::ChannelClosed { channel_id, reason, .. } => {
					if let Some(ch) = w.chans.iter().find(|c| c.ids.contains(channel_id)) {
						v.rep.count("c01_r5_channel_closed_events_seen");
						let coop = matches!(reason, ClosureReason::LocallyInitiatedCooperativeClosure | ClosureReason::CounterpartyInitiatedCooperativeClosure | ClosureReason::LegacyCooperativeClosure) && ch.coop_close_started;
						if ch.fault.is_none() && !coop {
							v.violation("C01", "R5-no-honest-failure", &format!("channel closed under honest operation: {}", canon(&format!("{:?}", reason))), format!("node{} chan {} closed: {:?}", node, ch.idx, reason));
						}
					}
				},
				Event::PaymentClaimable { payment_hash, .. } => {
					for p in self.probes.iter_mut().filter(|p| p.hash == payment_hash.0 && p.dst == *node) {
						p.claimable_seen = true;
					}
				},
				_ => {},
			},
			_ => {},
		}
	}
	fn on_settled(&mut self, w: &World, v: &mut Verdicts) {
		for p in self.probes.iter_mut().filter(|p| !p.judged) {
			p.judged = true;
			let inside = p.amount >= p.min && p.amount <= p.limit;
			let fault = w.chans[p.chan].fault.is_some() || w.chans[p.chan].closed;
			if !inside {
				v.rep.count("c01_r7a_outside_limit_probes");
				if p.add_seen.is_some() {
					v.violation("C01", "R7a-limits", "an HTLC outside the reported send limits was sent to the peer", format!("step {} node{} chan {} amount {} outside [{}, {}] but update_add_htlc was emitted", p.step, p.node, p.chan, p.amount, p.min, p.limit));
				}
			} else if p.quiet && !fault {
				v.rep.count("c01_r7b_inside_limit_quiet_probes");
				if p.amount == p.limit {
					v.rep.count("c01_r7b_probes_at_exact_limit");
				}
				if p.amount == p.min {
					v.rep.count("c01_r7b_probes_at_exact_minimum");
				}
				match p.add_seen {
					None => v.violation("C01", "R7b-limits", "an HTLC inside the reported send limits was refused by the sender on a quiet channel", format!("step {} node{} chan {} amount {} inside [{}, {}]", p.step, p.node, p.chan, p.amount, p.min, p.limit)),
					Some(id) => {
						let ch = &w.chans[p.chan];
						let phase = ch.model.as_ref().map(|m| m.phase(ch.party(p.node), id)).unwrap_or(HtlcPhase::Unknown);
						if p.failed_back && !p.claimable_seen {
							v.violation("C01", "R7b-limits", "an HTLC inside the reported send limits was failed back by the peer", format!("step {} node{} chan {} amount {} inside [{}, {}] phase {:?}", p.step, p.node, p.chan, p.amount, p.min, p.limit, phase));
						} else if !p.claimable_seen && matches!(phase, HtlcPhase::Committed) {
							v.violation("C01", "R7b-limits", "an HTLC inside the reported send limits was committed but never shown to the recipient", format!("step {} node{} chan {} amount {}", p.step, p.node, p.chan, p.amount));
						}
					},
				}
			} else {
				v.rep.count("c01_r7_inside_limit_busy_probes");
			}
		}
		self.probes.retain(|p| !p.judged);
	}
}

