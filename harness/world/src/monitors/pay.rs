//! Payment monitor: one observer for the three payment-level properties. It keeps its own copy of
//! every channel's reference model (fed from the emission stream, so that its state is exact at the
//! instant of every observation), the lifecycle of every HTLC, the pairing of forwarded HTLCs, the
//! durability of monitor updates, and the harness' ground truth (who was paid what, with which
//! secret, what the recipient's user decided).
//!
//! C02 (forwarder)   F1 downstream offer <= upstream - advertised fee / CLTV delta, upstream irrevocably committed first
//!                   F2 never fails upstream after the downstream fulfil was delivered
//!                   F3 fails upstream only once the downstream HTLC is irrevocably removed (or was never offered)
//!                   F4 at quiescence: downstream fulfilled => upstream fulfilled
//!                   F5 the downstream revocation's monitor update is handed out only after the upstream
//!                      preimage update is durable
//!                   F6 PaymentForwarded reports exactly upstream - downstream as the fee
//! C03 (sender)      P1 PaymentSent: preimage hashes to the hash, recipient's user released it, fee/amount as sent
//!                   P2 at quiescence: recipient's claim settled => PaymentSent
//!                   P3 at quiescence: nothing pending and nothing settled => PaymentFailed
//!                   P4 exactly one terminal event without restart; never Sent and Failed for one payment
//!                   P5 a payment a restarted node no longer lists has no HTLC in flight and never completes
//!                   P6 a second send under a pending payment id is refused
//!                   P7 PaymentPathFailed names a channel adjacent to the node that failed the HTLC
//!                   P8 PaymentFailed only when no HTLC of the payment is (or later comes) in flight
//! C04 (recipient)   I1 PaymentClaimable / preimage release only for authentic, complete, agreeing parts
//!                   I2 claim_funds below the deadline => every part fulfilled, PaymentClaimed for the full amount
//!                   I3 incomplete or refused parts are failed back (bounded: by the final quiescent point)
//!                   I4 all-or-nothing
use super::{Monitor, Verdicts};
use crate::model::{HtlcPhase, Model};
use crate::sim::{Obs, World};
use crate::taps::Ev;
use crate::wire::Wire;
use bitcoin::hashes::{sha256, Hash};
use lightning::chain::channelmonitor::VerifStep;
use lightning::events::{Event, PathFailure};
use lightning::ln::channelmanager::RecentPaymentDetails;
use lightning::ln::types::ChannelId;
use std::collections::{BTreeSet, HashMap};

#[derive(Clone, Debug)]
struct H {
	chan: usize,
	owner: usize, // party that offered it
	id: u64,
	hash: [u8; 32],
	amt: u64,
	cltv: u32,
	from: usize,
	to: usize,
	pay: Option<(usize, usize)>, // origin: (payment idx, part)
	up: Option<usize>,
	down: Option<usize>,
	fulfil_emitted: bool,
	fulfil_delivered: bool,
	fail_emitted: bool,
	/// secret of the revoke_and_ack that made the fulfilment irrevocable
	irrevocable_by: Option<[u8; 32]>,
	f5_done: bool,
	forwarded_event: bool,
	/// chain height when the update_add_htlc was emitted
	height_added: u32,
	/// secret of the offerer's revoke_and_ack that made the addition irrevocable
	committed_by: Option<[u8; 32]>,
}

#[derive(Default, Clone, Debug)]
struct P {
	sent: u32,
	failed: u32,
	path_failed: u32,
	terminal_step: Option<u64>,
	restarted_since_terminal: bool,
	htlcs: Vec<Option<usize>>,
	forgotten: bool,
	late_add_flagged: bool,
	/// the sender restarted from a manager serialized before its first terminal event
	stale_restart_since_terminal: bool,
	/// ... and at that restart an HTLC of the payment was still in a commitment transaction of an open channel (its
	/// removal not yet irrevocable) while an update that told the sender's monitor of the counterparty's claim was
	/// durable: the monitor then still holds what settled it
	stale_restart_with_live_htlc: bool,
	live_detail: String,
}

#[derive(Default, Clone, Debug)]
struct R {
	claimable_events: u32,
	claimable_amount: u64,
	claimable_set: Vec<usize>,
	deadline: Option<u32>,
	claim_height: Option<u32>,
	fail_called: bool,
	claimed_events: u32,
	dst_restarted: bool,
}

#[derive(Default)]
struct Dur {
	incomplete: BTreeSet<u64>,
	just_persisted: BTreeSet<u64>,
	/// payment hash -> ids of the updates carrying its preimage
	preimage: HashMap<[u8; 32], Vec<u64>>,
	/// payment hash -> ids of the updates (new holder commitment) that told the monitor the counterparty's claim
	claimed: HashMap<[u8; 32], Vec<u64>>,
	/// revocation secret of the counterparty -> id of the update that carried it
	secret_update: HashMap<[u8; 32], u64>,
}

pub struct PayMonitor {
	models: HashMap<usize, Model>,
	hs: Vec<H>,
	key: HashMap<(usize, usize, u64), usize>,
	ps: HashMap<usize, P>,
	rs: HashMap<usize, R>,
	dur: HashMap<(usize, ChannelId), Dur>,
	restarted: BTreeSet<usize>,
	/// nodes that restarted from a stored (older) ChannelManager at some point
	stale_restarted: BTreeSet<usize>,
	ticks: HashMap<usize, u64>,
	final_settle: bool,
}

impl PayMonitor {
	pub fn new() -> Self {
		PayMonitor { models: HashMap::new(), hs: vec![], key: HashMap::new(), ps: HashMap::new(), rs: HashMap::new(), dur: HashMap::new(), restarted: BTreeSet::new(), stale_restarted: BTreeSet::new(), ticks: HashMap::new(), final_settle: false }
	}
	fn phase(&self, h: &H) -> HtlcPhase {
		self.models.get(&h.chan).map(|m| m.phase(h.owner, h.id)).unwrap_or(HtlcPhase::Unknown)
	}
	fn chan_tainted(w: &World, ci: usize) -> bool {
		let c = &w.chans[ci];
		c.fault.is_some() || (c.closed && !c.coop_close_started)
	}
	fn pay_tainted(&self, w: &World, pi: usize) -> bool {
		let p = &w.payments[pi];
		p.parts.iter().any(|(chans, _)| chans.iter().any(|c| Self::chan_tainted(w, *c)))
	}
	/// number of channels of the part's path on which an HTLC of this part was offered; adds the
	/// channels adjacent to the node that must have failed it to `allowed`
	fn reach_all(&self, first: Option<usize>, allowed: &mut Vec<Option<u64>>, scids: &[u64]) -> usize {
		let mut k = 0;
		let mut cur = first;
		while let Some(i) = cur {
			k += 1;
			cur = self.hs[i].down;
			// a twin further down the path may have been the one that went on
			let me = &self.hs[i];
			if cur.is_none() {
				if let Some(t) = self.hs.iter().find(|t| t.to == me.to && t.from == me.from && (t.chan, t.id) != (me.chan, me.id) && t.hash == me.hash && t.amt == me.amt && t.cltv == me.cltv && t.down.is_some()) {
					cur = t.down;
				}
			}
			if k > scids.len() {
				break;
			}
		}
		let k = k.min(scids.len());
		if k == 0 {
			allowed.push(Some(scids[0]));
		} else {
			allowed.push(Some(scids[k - 1]));
			if k < scids.len() {
				allowed.push(Some(scids[k]));
			} else {
				allowed.push(None);
			}
		}
		k
	}
}

fn prefix_match(call: &str, pre: &str, hash: &[u8; 32]) -> bool {
	call.strip_prefix(pre).map(|h| vcore::hex(&hash[..6]) == h).unwrap_or(false)
}

impl Monitor for PayMonitor {
	fn name(&self) -> &'static str {
		"payments"
	}
	fn on_obs(&mut self, w: &World, o: &Obs, v: &mut Verdicts) {
		match o {
			Obs::Restarted { node, snapshot_step, .. } => {
				self.restarted.insert(*node);
				if snapshot_step.is_some() {
					self.stale_restarted.insert(*node);
				}
				if let Some(ss) = snapshot_step {
					let live: std::collections::HashSet<usize> = self.ps.iter().filter(|(_, p)| p.htlcs.iter().flatten().any(|i| {
						let h = &self.hs[*i];
						// still in a commitment of an open channel, and the node's monitor had durably been told of the claim
						!matches!(self.phase(h), HtlcPhase::Resolved { .. }) && !w.chans[h.chan].closed && w.chans[h.chan].fault.is_none()
							&& self.dur.get(&(*node, w.chans[h.chan].chan_id())).and_then(|d| d.claimed.get(&h.hash).map(|ids| ids.iter().any(|id| !d.incomplete.contains(id)))).unwrap_or(false)
					})).map(|(pi, _)| *pi).collect();
					for (pi, p) in self.ps.iter_mut() {
						if w.payments[*pi].src == *node && p.terminal_step.map(|t| *ss < t).unwrap_or(false) {
							p.stale_restart_since_terminal = true;
							if live.contains(pi) {
								p.stale_restart_with_live_htlc = true;
								v.rep.count("c03_p4_stale_restarts_with_a_settled_htlc_still_committed_and_its_claim_durable");
								p.live_detail = format!("restart at step {} from the manager of step {}", w.step, ss);
							}
						}
					}
				}
				for d in self.dur.iter_mut().filter(|(k, _)| k.0 == *node) {
					d.1.incomplete.clear();
				}
				for (pi, p) in self.ps.iter_mut() {
					// (the exactly-once clause is about senders that did not restart since the send)
					if w.payments[*pi].src == *node {
						p.restarted_since_terminal = true;
					}
				}
				for (ri, r) in self.rs.iter_mut() {
					if w.regs[*ri].dst == *node {
						r.dst_restarted = true;
					}
				}
			},
			// ---------------- durability of monitor updates ----------------
			Obs::Tap(Ev::WatchUpdate { node, chan, update_id, steps, status, .. }) => {
				let d = self.dur.entry((*node, *chan)).or_default();
				if !(status.contains("Completed") || d.just_persisted.remove(update_id)) {
					d.incomplete.insert(*update_id);
				}
				let mut secrets = vec![];
				for st in steps {
					match st {
						VerifStep::PaymentPreimage { payment_preimage, .. } => {
							d.preimage.entry(sha256::Hash::hash(&payment_preimage.0).to_byte_array()).or_default().push(*update_id);
						},
						VerifStep::CommitmentSecret { secret, .. } => {
							secrets.push(*secret);
							d.secret_update.insert(*secret, *update_id);
						},
						VerifStep::HolderCommitment { claimed_preimages, .. } => {
							for pre in claimed_preimages {
								d.claimed.entry(sha256::Hash::hash(&pre.0).to_byte_array()).or_default().push(*update_id);
							}
						},
						_ => {},
					}
				}
				// F5
				for secret in secrets {
					let idxs: Vec<usize> = self.hs.iter().enumerate().filter(|(_, h)| h.irrevocable_by == Some(secret) && !h.f5_done && h.from == *node && h.up.is_some()).map(|(i, _)| i).collect();
					for i in idxs {
						self.hs[i].f5_done = true;
						let up = self.hs[self.hs[i].up.unwrap()].clone();
						let dn = self.hs[i].clone();
						if Self::chan_tainted(w, up.chan) || Self::chan_tainted(w, dn.chan) || w.chans[dn.chan].chan_id() != *chan {
							continue;
						}
						v.rep.count("c02_f5_durability_order_evaluations");
						let ucid = w.chans[up.chan].chan_id();
						let mut ok = self.dur.get(&(*node, ucid)).and_then(|d| d.preimage.get(&dn.hash).map(|ids| ids.iter().any(|id| !d.incomplete.contains(id)))).unwrap_or(false);
						if !ok {
							// the pairing may have picked an indistinguishable twin (same hash, amount and expiry on another
							// channel from the same peer): the library knows which upstream HTLC it forwarded
							for t in self.hs.iter().filter(|t| t.to == up.to && t.from == up.from && (t.chan, t.id) != (up.chan, up.id) && t.hash == up.hash && t.amt == up.amt && t.cltv == up.cltv) {
								let tcid = w.chans[t.chan].chan_id();
								if self.dur.get(&(*node, tcid)).and_then(|d| d.preimage.get(&dn.hash).map(|ids| ids.iter().any(|id| !d.incomplete.contains(id)))).unwrap_or(false) {
									ok = true;
								}
							}
						}
						if !ok {
							let handed = self.dur.get(&(*node, ucid)).and_then(|d| d.preimage.get(&dn.hash).cloned());
							v.violation("C02", "F5-durability-order", "the monitor update that makes a downstream fulfilment irrevocable was handed out before the upstream preimage update was durable", format!("node{}: downstream chan {} htlc {} (update {}), upstream chan {} preimage updates handed {:?}, none complete", node, dn.chan, dn.id, update_id, up.chan, handed));
						}
					}
				}
			},
			Obs::Tap(Ev::PersistUpdate { node, chan, update_id: Some(id), in_progress, .. }) => {
				if !*in_progress {
					let d = self.dur.entry((*node, *chan)).or_default();
					if !d.incomplete.remove(id) {
						d.just_persisted.insert(*id);
					}
				}
			},
			Obs::Tap(Ev::PersistUpdate { node, chan, update_id: None, latest, in_progress }) => {
				if !*in_progress {
					let d = self.dur.entry((*node, *chan)).or_default();
					d.incomplete.retain(|i| *i > *latest);
				}
			},
			Obs::Tap(Ev::Completed { node, chan, update_id }) => {
				self.dur.entry((*node, *chan)).or_default().incomplete.remove(update_id);
			},
			// ---------------- harness API calls ----------------
			Obs::Api { node, call, result, .. } => {
				if let Some(rest) = call.strip_prefix("sending_payment#") {
					if let Ok(pi) = rest.parse::<usize>() {
						let n = w.payments[pi].parts.len();
						self.ps.insert(pi, P { htlcs: vec![None; n], ..Default::default() });
						self.rs.entry(w.payments[pi].reg).or_default();
					}
				} else if call.starts_with("claim_funds hash=") || call.starts_with("fail_htlc_backwards hash=") {
					for (ri, r) in self.rs.iter_mut() {
						let reg = &w.regs[*ri];
						if reg.dst != *node {
							continue;
						}
						if prefix_match(call, "claim_funds hash=", &reg.hash.0) && r.claim_height.is_none() && !r.fail_called {
							r.claim_height = Some(w.chain.height());
						} else if prefix_match(call, "fail_htlc_backwards hash=", &reg.hash.0) && r.claim_height.is_none() {
							r.fail_called = true;
						}
					}
				} else if call.starts_with("dup_send#") {
					v.rep.count("c03_p6_duplicate_id_sends");
					if call.contains("listed_pending=true") && !result.contains("DuplicatePayment") {
						v.violation("C03", "P6-duplicate-id", "a second send under the id of a pending payment was not refused", format!("node{} {} -> {}", node, call, result));
					}
				} else if call == "timer_tick" {
					*self.ticks.entry(*node).or_default() += 1;
				}
			},
			// ---------------- deliveries ----------------
			Obs::Deliver { to, chan: Some(ci), wire: Wire::Fulfill(m), .. } => {
				let party = w.chans[*ci].party(*to);
				if let Some(i) = self.key.get(&(*ci, party, m.htlc_id)) {
					self.hs[*i].fulfil_delivered = true;
				}
			},
			// ---------------- emissions ----------------
			Obs::Emit(e) => {
				let ci = match e.chan {
					Some(c) => c,
					None => return,
				};
				let ch = &w.chans[ci];
				let party = ch.party(e.from);
				if !self.models.contains_key(&ci) {
					match &ch.model {
						Some(m) => {
							self.models.insert(ci, Model::new(m.p.clone()));
						},
						None => return,
					}
				}
				// state before the message
				let before: Option<HtlcPhase> = match &e.wire {
					Wire::Fail(m) => Some((1 - party, m.htlc_id)),
					Wire::FailMal(m) => Some((1 - party, m.htlc_id)),
					_ => None,
				}
				.and_then(|(o, id)| self.key.get(&(ci, o, id)).map(|i| self.phase(&self.hs[*i])));
				let cs_num = e.commit.as_ref().map(|c| c.got.num);
				if matches!(e.wire, Wire::CS(_)) && cs_num.is_none() {
					return;
				}
				let retrans = self.models.get_mut(&ci).unwrap().on_emit(party, &e.wire, cs_num);
				if retrans {
					return;
				}
				let tainted = Self::chan_tainted(w, ci);
				match &e.wire {
					Wire::Add(m) => {
						let hash = m.payment_hash.0;
						let mut h = H { chan: ci, owner: party, id: m.htlc_id, hash, amt: m.amount_msat, cltv: m.cltv_expiry, from: e.from, to: e.to, pay: None, up: None, down: None, fulfil_emitted: false, fulfil_delivered: false, fail_emitted: false, irrevocable_by: None, f5_done: false, forwarded_event: false, height_added: w.chain.height(), committed_by: None };
						let idx = self.hs.len();
						// origin?
						let mut origin = None;
						// (several sends may share hash, channel and amount – staged parts of one payment –: the
						// oldest one that has not been reported failed is the one whose HTLC goes out)
						let mut order: Vec<usize> = self.ps.keys().cloned().collect();
						order.sort_by_key(|pi| (self.ps[pi].failed > 0, *pi));
						for pi in order.iter() {
							let p = &self.ps[pi];
							let rec = &w.payments[*pi];
							if rec.src == e.from && rec.hash.0 == hash {
								for (k, (chans, first_amt)) in rec.parts.iter().enumerate() {
									if p.htlcs[k].is_none() && chans[0] == ci && *first_amt == m.amount_msat {
										origin = Some((*pi, k));
										break;
									}
								}
							}
							if origin.is_some() {
								break;
							}
						}
						if let Some((pi, k)) = origin {
							h.pay = Some((pi, k));
							let p = self.ps.get_mut(&pi).unwrap();
							p.htlcs[k] = Some(idx);
							v.rep.count("pay_origin_htlcs");
							if p.failed > 0 && !p.late_add_flagged && !tainted {
								p.late_add_flagged = true;
								v.violation("C03", "P8-terminal-while-pending", "an HTLC of a payment went out after PaymentFailed had been reported for it", format!("node{} payment#{} part {} chan {} htlc {}", e.from, pi, k, ci, m.htlc_id));
							}
							if p.forgotten && !tainted {
								v.violation("C03", "P5-forgotten-payment", "an HTLC of a payment the restarted node no longer lists went out", format!("node{} payment#{}", e.from, pi));
							}
						} else {
							// a forward by e.from: find the upstream twin
							let cands: Vec<usize> = self.hs.iter().enumerate().filter(|(_, u)| u.hash == hash && u.to == e.from && u.down.is_none() && u.chan != ci && !u.fail_emitted && !u.fulfil_emitted).map(|(i, _)| i).collect();
							let committed: Vec<usize> = cands.iter().cloned().filter(|i| self.phase(&self.hs[*i]) == HtlcPhase::Committed).collect();
							if tainted {
								// nothing is judged on a channel with an injected fault
							} else if !committed.is_empty() {
								// parts of one payment share the hash: prefer the upstream HTLC whose amount and expiry
								// are exactly what the sender computed for this hop
								let (fee, delta) = w.forwarding_fee(e.from, ci, m.amount_msat);
								let ui = committed.iter().cloned().find(|i| self.hs[*i].amt == m.amount_msat + fee && self.hs[*i].cltv == m.cltv_expiry + delta).unwrap_or(committed[0]);
								h.up = Some(ui);
								self.hs[ui].down = Some(idx);
								let u = self.hs[ui].clone();
								v.rep.count("c02_f1_forward_admissions_checked");
								// C09 O5: the forward depends on the update that recorded the upstream peer's revocation (the one
								// that made the upstream HTLC irrevocable): that update and all earlier ones of the upstream channel
								// must have been reported complete. Indistinguishable twins count together.
								let twins: Vec<usize> = committed.iter().cloned().filter(|i| self.hs[*i].amt == u.amt && self.hs[*i].cltv == u.cltv).collect();
								let mut judged = false;
								let mut durable = false;
								let mut why = String::new();
								for t in twins.iter() {
									let th = &self.hs[*t];
									if let (Some(sec), false) = (th.committed_by, self.restarted.contains(&e.from)) {
										let ucid = w.chans[th.chan].chan_id();
										if let Some(d) = self.dur.get(&(e.from, ucid)) {
											if let Some(k) = d.secret_update.get(&sec) {
												judged = true;
												match d.incomplete.iter().find(|i| **i <= *k) {
													None => durable = true,
													Some(inc) => why = format!("upstream chan {} htlc {}: the revocation was recorded by update {}, update {} is still in flight", th.chan, th.id, k, inc),
												}
											}
										}
									}
								}
								if judged {
									v.rep.count("c09_o5_forwards_judged");
									if !durable {
										v.violation("C09", "O5-forward-after-durable", "an HTLC was forwarded before the monitor update that made its upstream HTLC irrevocable (and every earlier one) had been reported complete", format!("node{} forwards on chan {} htlc {}; {}", e.from, ci, m.htlc_id, why));
									}
								} else {
									v.rep.count("c09_o5_forwards_without_a_recorded_revocation");
								}
								if u.amt < m.amount_msat || u.amt - m.amount_msat < fee {
									v.violation("C02", "F1-forward-admission", "downstream amount exceeds upstream amount less the advertised fee", format!("node{}: in {} msat (chan {}), out {} msat (chan {}), advertised fee {}", e.from, u.amt, u.chan, m.amount_msat, ci, fee));
								}
								if u.cltv < m.cltv_expiry || u.cltv - m.cltv_expiry < delta {
									v.violation("C02", "F1-forward-admission", "downstream expiry exceeds upstream expiry less the advertised CLTV delta", format!("node{}: in cltv {} out cltv {} advertised delta {}", e.from, u.cltv, m.cltv_expiry, delta));
								}
							} else if !cands.is_empty() {
								v.violation("C02", "F1-forward-admission", "an HTLC was forwarded before its upstream HTLC was irrevocably committed", format!("node{} chan {} htlc {}: upstream phase {:?}", e.from, ci, m.htlc_id, self.phase(&self.hs[cands[0]])));
							} else if !self.restarted.contains(&e.from) {
								v.violation("C02", "F1-forward-admission", "an HTLC was offered that is neither a payment of this node nor backed by an upstream HTLC", format!("node{} chan {} htlc {} hash {}", e.from, ci, m.htlc_id, vcore::hex(&hash[..6])));
							}
						}
						self.key.insert((ci, party, m.htlc_id), idx);
						self.hs.push(h);
					},
					Wire::Fulfill(m) => {
						if let Some(i) = self.key.get(&(ci, 1 - party, m.htlc_id)).cloned() {
							self.hs[i].fulfil_emitted = true;
							let h = self.hs[i].clone();
							if sha256::Hash::hash(&m.payment_preimage.0).to_byte_array() != h.hash {
								v.violation("C04", "I1-authentic", "update_fulfill_htlc carries a preimage that does not hash to the payment hash", format!("node{} chan {} htlc {}", e.from, ci, h.id));
							}
							if h.down.is_none() && !tainted {
								// the final recipient releases the preimage: only after its user claimed an authentic, complete payment
								if let Some((ri, reg)) = w.regs.iter().enumerate().find(|(_, r)| r.hash.0 == h.hash && r.dst == e.from) {
									v.rep.count("c04_i1_preimage_releases_checked");
									let r = self.rs.entry(ri).or_default();
									if r.claim_height.is_none() && !r.dst_restarted {
										v.violation("C04", "I1-authentic", "the recipient released the preimage although its user never called claim_funds", format!("node{} reg {} chan {} htlc {}", e.from, reg.idx, ci, h.id));
									}
									// the part must belong to a send that used the issued secret
									if let Some(src_pay) = self.origin_of(i) {
										if !w.payments[src_pay].secret_ok {
											v.violation("C04", "I1-authentic", "an HTLC carrying a wrong payment secret was fulfilled", format!("node{} payment#{} class {}", e.from, src_pay, w.payments[src_pay].class));
										}
									}
								}
							}
						}
					},
					Wire::Fail(_) | Wire::FailMal(_) => {
						let id = match &e.wire {
							Wire::Fail(m) => m.htlc_id,
							Wire::FailMal(m) => m.htlc_id,
							_ => unreachable!(),
						};
						if let Some(i) = self.key.get(&(ci, 1 - party, id)).cloned() {
							let _ = before;
							// indistinguishable twins (same channel, hash, amount, expiry): the library knows which one it
							// forwarded, the pairing above guessed; if this one is paired and a twin is not, swap
							if let Some(my_down) = self.hs[i].down {
								let me = self.hs[i].clone();
								let my_down_dead = matches!(self.phase(&self.hs[my_down]), HtlcPhase::Resolved { fulfilled: false });
								if !my_down_dead {
									// a twin that was not failed yet and whose own downstream twin is gone (or never existed)
									let cand = self.hs.iter().position(|t| t.to == me.to && t.from == me.from && (t.chan, t.id) != (me.chan, me.id) && t.hash == me.hash && t.amt == me.amt && t.cltv == me.cltv && !t.fail_emitted && !t.fulfil_emitted && t.down.map(|d| matches!(self.phase(&self.hs[d]), HtlcPhase::Resolved { fulfilled: false })).unwrap_or(true));
									if let Some(t) = cand {
										let td = self.hs[t].down;
										self.hs[t].down = Some(my_down);
										self.hs[my_down].up = Some(t);
										self.hs[i].down = td;
										if let Some(d) = td {
											self.hs[d].up = Some(i);
										}
									}
								}
							}
							self.hs[i].fail_emitted = true;
							let h = self.hs[i].clone();
							if let Some(di) = h.down {
								let d = self.hs[di].clone();
								if !tainted && !Self::chan_tainted(w, d.chan) {
									v.rep.count("c02_f3_fail_back_evaluations");
									if d.fulfil_delivered {
										v.violation("C02", "F2-claim-after-preimage", "the upstream HTLC was failed back after the downstream fulfilment had been delivered", format!("node{}: upstream chan {} htlc {}, downstream chan {} htlc {}", e.from, ci, id, d.chan, d.id));
									} else {
										match self.phase(&d) {
											HtlcPhase::Resolved { fulfilled: false } => {},
											ph => v.violation("C02", "F3-fail-only-when-irrevocable", "the upstream HTLC was failed back while the downstream HTLC was not yet irrevocably removed", format!("node{}: upstream chan {} htlc {}, downstream chan {} htlc {} phase {:?}", e.from, ci, id, d.chan, d.id, ph)),
										}
									}
								}
							} else if !tainted {
								// final recipient (or a node refusing to forward) fails the HTLC
								if let Some((ri, _)) = w.regs.iter().enumerate().find(|(_, r)| r.hash.0 == h.hash && r.dst == e.from) {
									let r = self.rs.entry(ri).or_default();
									if let (Some(ch), Some(dl)) = (r.claim_height, r.deadline) {
										if ch < dl && r.claimable_set.contains(&i) && !r.dst_restarted {
											v.violation("C04", "I2-claim-window", "a part of a claimable payment was failed back although claim_funds was called below the claim deadline", format!("node{} reg {} chan {} htlc {} claim height {} deadline {}", e.from, ri, ci, id, ch, dl));
										}
									}
								}
							}
						}
					},
					Wire::RAA(m) => {
						// which fulfilled HTLCs became irrevocably removed by this revocation?
						let secret = m.per_commitment_secret;
						let md = self.models.get(&ci).unwrap();
						let newly: Vec<usize> = self.hs.iter().enumerate().filter(|(_, h)| h.chan == ci && h.fulfil_emitted && h.irrevocable_by.is_none() && md.phase(h.owner, h.id) == (HtlcPhase::Resolved { fulfilled: true })).map(|(i, _)| i).collect();
						for i in newly {
							self.hs[i].irrevocable_by = Some(secret);
						}
						// ... and which additions (offered by the sender of this revocation) became irrevocable?
						let added: Vec<usize> = self.hs.iter().enumerate().filter(|(_, h)| h.chan == ci && h.from == e.from && h.committed_by.is_none() && md.phase(h.owner, h.id) == HtlcPhase::Committed).map(|(i, _)| i).collect();
						for i in added {
							self.hs[i].committed_by = Some(secret);
						}
					},
					_ => {},
				}
			},
			// ---------------- events ----------------
			Obs::Event { node, ev, step } => self.on_event(w, *node, ev, *step, v),
			_ => {},
		}
	}
	fn on_settled(&mut self, w: &World, v: &mut Verdicts) {
		v.rep.count("pay_settle_points");
		// F4
		for h in self.hs.iter() {
			if let Some(di) = h.down {
				let d = &self.hs[di];
				if d.fulfil_emitted && !Self::chan_tainted(w, h.chan) && !Self::chan_tainted(w, d.chan) {
					v.rep.count("c02_f4_claim_upstream_evaluations");
					if self.phase(h) != (HtlcPhase::Resolved { fulfilled: true }) {
						v.violation("C02", "F4-claim-upstream", "at a quiescent point a forwarded HTLC is fulfilled downstream but not upstream", format!("node{}: upstream chan {} htlc {} phase {:?}; downstream chan {} htlc {}", h.to, h.chan, h.id, self.phase(h), d.chan, d.id));
					}
				}
			}
		}
		// payments
		let pis: Vec<usize> = self.ps.keys().cloned().collect();
		for pi in pis {
			let rec = &w.payments[pi];
			if self.pay_tainted(w, pi) || w.nodes[rec.src].persister.dead.load(std::sync::atomic::Ordering::SeqCst) {
				continue;
			}
			let p = self.ps[&pi].clone();
			let hts: Vec<&H> = p.htlcs.iter().flatten().map(|i| &self.hs[*i]).collect();
			let any_fulfilled = hts.iter().any(|h| h.fulfil_emitted);
			let all_gone = hts.iter().all(|h| matches!(self.phase(h), HtlcPhase::Resolved { .. }));
			let listed = w.nodes[rec.src].mgr.list_recent_payments().into_iter().find(|d| match d {
				RecentPaymentDetails::Pending { payment_id, .. } | RecentPaymentDetails::Fulfilled { payment_id, .. } | RecentPaymentDetails::Abandoned { payment_id, .. } | RecentPaymentDetails::AwaitingInvoice { payment_id } => *payment_id == rec.id,
			});
			let pending_listed = matches!(listed, Some(RecentPaymentDetails::Pending { .. }));
			if any_fulfilled && all_gone {
				v.rep.count("c03_p2_settled_claims_checked");
				if p.sent == 0 && !p.forgotten {
					v.violation("C03", "P2-sent-when-settled", "the recipient's claim was settled but the sender never reported PaymentSent", format!("node{} payment#{} class {}", rec.src, pi, rec.class));
				}
			}
			if !any_fulfilled && all_gone && rec.send_result.starts_with("Ok") && hts.len() == p.htlcs.len() {
				v.rep.count("c03_p3_failed_payments_checked");
				if p.failed == 0 && !p.forgotten {
					v.violation("C03", "P3-failed-when-nothing-pending", "every HTLC of the payment was failed back but the sender never reported PaymentFailed", format!("node{} payment#{} class {} listed={:?}", rec.src, pi, rec.class, listed.is_some()));
				}
			}
			// a payment the node still lists as pending must have an HTLC somewhere (only judged at the
			// final quiescent point, after the holding cells were given every chance to drain)
			if self.final_settle && pending_listed && rec.send_result.starts_with("Ok") && p.sent == 0 && p.failed == 0 {
				let in_flight = hts.iter().any(|h| !matches!(self.phase(h), HtlcPhase::Resolved { .. }));
				let claimable_waiting = w.claimable.iter().any(|c| c.hash == rec.hash);
				v.rep.count("c03_p3_pending_payments_checked");
				if !in_flight && !claimable_waiting && hts.len() < p.htlcs.len() && all_gone && self.stale_restarted.contains(&rec.src) {
					// (known finding F25: the sender restarted from a stored manager, its channel stopped moving and the
					// HTLC never leaves the holding cell; without such a restart the plain signature below applies)
					v.rep.count("c03_p3_pending_payments_of_a_sender_restarted_from_a_stored_manager");
					v.violation("C03", "P3-failed-when-nothing-pending", "a payment is listed as pending although none of its HTLCs exists any more, the sender having restarted from a stored ChannelManager since", format!("node{} payment#{} class {} parts sent {}/{}", rec.src, pi, rec.class, hts.len(), p.htlcs.len()));
				} else if !in_flight && !claimable_waiting && hts.len() < p.htlcs.len() && all_gone {
					v.violation("C03", "P3-failed-when-nothing-pending", "a payment is listed as pending although none of its HTLCs exists any more", format!("node{} payment#{} class {} parts sent {}/{}", rec.src, pi, rec.class, hts.len(), p.htlcs.len()));
				}
			}
			// P5
			if self.restarted.contains(&rec.src) && listed.is_none() && p.sent == 0 && p.failed == 0 && rec.send_result.starts_with("Ok") {
				v.rep.count("c03_p5_forgotten_payments_checked");
				let in_flight = hts.iter().any(|h| !matches!(self.phase(h), HtlcPhase::Resolved { .. }));
				if in_flight {
					v.violation("C03", "P5-forgotten-payment", "a payment the restarted node no longer lists still has an HTLC in flight", format!("node{} payment#{}", rec.src, pi));
				}
				self.ps.get_mut(&pi).unwrap().forgotten = true;
			}
		}
		// registrations: I2 / I4
		let ris: Vec<usize> = self.rs.keys().cloned().collect();
		for ri in ris {
			let r = self.rs[&ri].clone();
			let reg = &w.regs[ri];
			if r.claimable_set.iter().any(|i| Self::chan_tainted(w, self.hs[*i].chan)) || r.dst_restarted {
				continue;
			}
			if r.claimable_set.is_empty() {
				continue;
			}
			let phases: Vec<HtlcPhase> = r.claimable_set.iter().map(|i| self.phase(&self.hs[*i])).collect();
			let n_ful = phases.iter().filter(|p| matches!(p, HtlcPhase::Resolved { fulfilled: true } | HtlcPhase::Removing { fulfilled: true })).count();
			let n_fail = phases.iter().filter(|p| matches!(p, HtlcPhase::Resolved { fulfilled: false } | HtlcPhase::Removing { fulfilled: false })).count();
			v.rep.count("c04_i4_all_or_nothing_evaluations");
			if n_ful > 0 && n_fail > 0 {
				v.violation("C04", "I4-all-or-nothing", "some parts of a payment were fulfilled and others failed back", format!("node{} reg {}: {} fulfilled, {} failed of {}", reg.dst, ri, n_ful, n_fail, phases.len()));
			}
			if let (Some(ch), Some(dl)) = (r.claim_height, r.deadline) {
				if ch < dl {
					v.rep.count("c04_i2_claims_checked");
					if dl - ch <= 3 {
						v.rep.count("c08_d2_claims_within_three_blocks_of_the_deadline");
					}
					// (known finding F25 has its own signature: the peer that offered the HTLC restarted from a stored manager
					// and its channel stopped moving; every other way of not settling a claimed payment keeps the plain one)
					let peer_restarted = r.claimable_set.iter().any(|i| self.stale_restarted.contains(&self.hs[*i].from));
					if n_ful != phases.len() && peer_restarted {
						v.rep.count("c04_i2_unsettled_claims_with_a_restarted_offering_peer");
						v.violation("C04", "I2-claim-window", "claim_funds was called below the claim deadline but not every part was fulfilled, the peer that offered the HTLC having restarted from a stored ChannelManager since", format!("node{} reg {}: {} of {} parts fulfilled (claim height {}, deadline {})", reg.dst, ri, n_ful, phases.len(), ch, dl));
						v.violation("C08", "D2-claim-below-deadline", "a payment could not be claimed at a height strictly below its advertised claim deadline, the peer that offered the HTLC having restarted from a stored ChannelManager since", format!("node{} reg {}: {} of {} parts fulfilled (claim height {}, deadline {})", reg.dst, ri, n_ful, phases.len(), ch, dl));
					} else if n_ful != phases.len() {
						v.violation("C04", "I2-claim-window", "claim_funds was called below the claim deadline but not every part was fulfilled", format!("node{} reg {}: {} of {} parts fulfilled (claim height {}, deadline {})", reg.dst, ri, n_ful, phases.len(), ch, dl));
						v.violation("C08", "D2-claim-below-deadline", "a payment could not be claimed at a height strictly below its advertised claim deadline", format!("node{} reg {}: {} of {} parts fulfilled (claim height {}, deadline {})", reg.dst, ri, n_ful, phases.len(), ch, dl));
					} else if r.claimed_events == 0 {
						v.violation("C04", "I2-claim-window", "every part was fulfilled but PaymentClaimed was never reported", format!("node{} reg {}", reg.dst, ri));
					}
				}
			}
		}
		// I3 (bounded): refused / incomplete parts are failed back by the final quiescent point
		if self.final_settle {
			for (pi, p) in self.ps.iter() {
				let rec = &w.payments[*pi];
				if self.pay_tainted(w, *pi) || !matches!(rec.class, "wrong-secret" | "foreign-secret" | "underpaid" | "incomplete-mpp" | "disagreeing-parts" | "expired-secret" | "short-final-cltv") {
					continue;
				}
				for i in p.htlcs.iter().flatten() {
					// the last HTLC of the chain (at the recipient)
					let mut last = *i;
					while let Some(d) = self.hs[last].down {
						last = d;
					}
					if self.hs[last].to != rec.dst {
						continue;
					}
					v.rep.count("c04_i3_refused_parts_checked");
					match self.phase(&self.hs[last]) {
						HtlcPhase::Resolved { fulfilled: false } => {},
						ph => {
							if !Self::chan_tainted(w, self.hs[last].chan) && self.ticks.get(&rec.dst).cloned().unwrap_or(0) >= 4 {
								v.violation("C04", "I3-refused-parts-failed-back", "an HTLC that must be refused is still held (or was fulfilled) at the final quiescent point", format!("node{} payment#{} class {} phase {:?}", rec.dst, pi, rec.class, ph));
							}
						},
					}
				}
			}
		}
	}
	fn before_final_settle(&mut self) {
		self.final_settle = true;
	}
}

impl PayMonitor {
	/// payment index of the origin HTLC at the head of the forwarding chain that ends in `i`
	fn origin_of(&self, mut i: usize) -> Option<usize> {
		loop {
			if let Some((pi, _)) = self.hs[i].pay {
				return Some(pi);
			}
			match self.hs[i].up {
				Some(u) => i = u,
				None => return None,
			}
		}
	}
	fn find_pay(&self, w: &World, node: usize, id: &lightning::ln::channelmanager::PaymentId) -> Option<usize> {
		self.ps.keys().cloned().find(|pi| w.payments[*pi].id == *id && w.payments[*pi].src == node)
	}
	fn on_event(&mut self, w: &World, node: usize, ev: &Event, step: u64, v: &mut Verdicts) {
		match ev {
			Event::PaymentSent { payment_id: Some(id), payment_preimage, payment_hash, fee_paid_msat, amount_msat, .. } => {
				let pi = match self.find_pay(w, node, id) {
					Some(p) => p,
					None => {
						v.violation("C03", "P1-truthful-sent", "PaymentSent for a payment id this node never sent", format!("node{} id {}", node, vcore::hex(&id.0[..8])));
						return;
					},
				};
				let rec = &w.payments[pi];
				let tainted = self.pay_tainted(w, pi);
				v.rep.count("c03_p1_payment_sent_checked");
				if sha256::Hash::hash(&payment_preimage.0).to_byte_array() != payment_hash.0 || *payment_hash != rec.hash {
					v.violation("C03", "P1-truthful-sent", "PaymentSent reports a preimage that does not hash to the payment hash", format!("node{} payment#{}", node, pi));
				}
				let r = self.rs.get(&rec.reg).cloned().unwrap_or_default();
				if r.claim_height.is_none() && !r.dst_restarted {
					v.violation("C03", "P1-truthful-sent", "PaymentSent although the recipient's user never released the preimage", format!("node{} payment#{} class {}", node, pi, rec.class));
				}
				let p = self.ps.get_mut(&pi).unwrap();
				if p.forgotten {
					v.violation("C03", "P5-forgotten-payment", "a payment the restarted node no longer listed completed afterwards", format!("node{} payment#{}", node, pi));
				}
				if p.failed > 0 {
					v.violation("C03", "P4-one-terminal-event", "PaymentSent reported after PaymentFailed for the same payment", format!("node{} payment#{}", node, pi));
				} else if p.sent > 0 && !p.restarted_since_terminal {
					v.violation("C03", "P4-one-terminal-event", "PaymentSent reported twice without a restart in between", format!("node{} payment#{}", node, pi));
				}
				if p.sent == 0 && !tainted && p.path_failed == 0 && rec.send_result.starts_with("Ok") {
					let fee: u64 = rec.parts.iter().zip(rec.part_amts.iter()).map(|((_, first), amt)| first - amt).sum();
					if *fee_paid_msat != Some(fee) {
						v.violation("C03", "P1-truthful-sent", "PaymentSent reports a fee different from what the sender's HTLCs carried above the delivered amount", format!("node{} payment#{}: reported {:?}, HTLCs carried {}", node, pi, fee_paid_msat, fee));
					}
					if *amount_msat != Some(rec.amt) {
						v.violation("C03", "P1-truthful-sent", "PaymentSent reports an amount different from the amount sent", format!("node{} payment#{}: reported {:?}, sent {}", node, pi, amount_msat, rec.amt));
					}
				}
				p.sent += 1;
				p.terminal_step.get_or_insert(step);
			},
			Event::PaymentFailed { payment_id, .. } => {
				let pi = match self.find_pay(w, node, payment_id) {
					Some(p) => p,
					None => return,
				};
				let rec = &w.payments[pi];
				let tainted = self.pay_tainted(w, pi);
				v.rep.count("c03_p8_payment_failed_checked");
				if rec.class == "underpaid-fee" || rec.class == "short-delta" {
					v.rep.count("c02_f1_nonconforming_forwards_ended_in_payment_failed");
				}
				let p = self.ps[&pi].clone();
				if p.forgotten {
					v.violation("C03", "P5-forgotten-payment", "a payment the restarted node no longer listed produced an event afterwards", format!("node{} payment#{}", node, pi));
				}
				if p.sent > 0 && p.stale_restart_since_terminal && p.stale_restart_with_live_htlc {
					v.rep.count("c03_p4_failed_after_sent_with_live_htlc_at_the_stale_restart");
					v.violation("C03", "P4-one-terminal-event", "PaymentFailed reported after PaymentSent had been handled: the sender restarted from an older ChannelManager while the settled HTLC was still in a commitment transaction and its monitor had durably recorded the claim", format!("node{} payment#{} ({}; htlcs now: {:?})", node, pi, p.live_detail, p.htlcs.iter().flatten().map(|i| (self.hs[*i].chan, self.hs[*i].id, self.phase(&self.hs[*i]), self.hs[*i].fulfil_emitted, self.hs[*i].fulfil_delivered)).collect::<Vec<_>>()));
				} else if p.sent > 0 && p.stale_restart_since_terminal {
					v.violation("C03", "P4-one-terminal-event", "PaymentFailed reported after PaymentSent had been handled, once the sender restarted from a ChannelManager serialized before that PaymentSent", format!("node{} payment#{}", node, pi));
				} else if p.sent > 0 {
					v.violation("C03", "P4-one-terminal-event", "PaymentFailed reported after PaymentSent for the same payment", format!("node{} payment#{}", node, pi));
				} else if p.failed > 0 && !p.restarted_since_terminal {
					v.violation("C03", "P4-one-terminal-event", "PaymentFailed reported twice without a restart in between", format!("node{} payment#{}", node, pi));
				}
				if !tainted {
					for i in p.htlcs.iter().flatten() {
						let h = &self.hs[*i];
						if h.fulfil_emitted {
							v.violation("C03", "P3-truthful-failed", "PaymentFailed although a part of the payment was settled", format!("node{} payment#{} chan {} htlc {}", node, pi, h.chan, h.id));
						} else if !matches!(self.phase(h), HtlcPhase::Resolved { fulfilled: false }) {
							v.violation("C03", "P8-terminal-while-pending", "PaymentFailed reported while an HTLC of the payment is still in flight", format!("node{} payment#{} class {} chan {} htlc {} phase {:?}", node, pi, rec.class, h.chan, h.id, self.phase(h)));
						}
					}
				}
				let p = self.ps.get_mut(&pi).unwrap();
				p.failed += 1;
				p.terminal_step.get_or_insert(step);
			},
			Event::PaymentPathFailed { payment_id: Some(id), path, short_channel_id, failure, .. } => {
				let pi = match self.find_pay(w, node, id) {
					Some(p) => p,
					None => return,
				};
				let rec = &w.payments[pi];
				let tainted = self.pay_tainted(w, pi);
				self.ps.get_mut(&pi).unwrap().path_failed += 1;
				// which part?
				let first_scid = path.hops[0].short_channel_id;
				let first_amt: u64 = path.hops.iter().map(|h| h.fee_msat).sum();
				let part = rec.parts.iter().position(|(chans, fa)| w.chans[chans[0]].scid == Some(first_scid) && *fa == first_amt);
				if let (Some(k), false) = (part, tainted) {
					let scids: Vec<u64> = path.hops.iter().map(|h| h.short_channel_id).collect();
					// (parts that are indistinguishable on the wire – same channel, amount and expiry – count together)
					let mut firsts: Vec<Option<usize>> = vec![self.ps[&pi].htlcs[k]];
					if let Some(f) = self.ps[&pi].htlcs[k] {
						let me = self.hs[f].clone();
						firsts.extend(self.hs.iter().enumerate().filter(|(_, t)| t.to == me.to && t.from == me.from && (t.chan, t.id) != (me.chan, me.id) && t.hash == me.hash && t.amt == me.amt && t.cltv == me.cltv).map(|(i, _)| Some(i)));
					}
					let mut allowed: Vec<Option<u64>> = vec![];
					let mut reach = 0;
					for f in firsts {
						reach = self.reach_all(f, &mut allowed, &scids);
					}
					v.rep.count("c03_p7_path_failures_checked");
					if matches!(failure, PathFailure::OnPath { .. }) && !allowed.contains(short_channel_id) {
						v.violation("C03", "P7-failed-channel", "PaymentPathFailed names a channel that is not adjacent to the node that failed the HTLC", format!("node{} payment#{} part {}: path scids {:?}, HTLC was offered on the first {} of them, reported {:?}", node, pi, k, scids, reach, short_channel_id));
					}
				}
			},
			Event::PaymentClaimable { payment_hash, amount_msat, claim_deadline, counterparty_skimmed_fee_msat, .. } => {
				// (a recipient that accepts underpaying HTLCs is shown what it received; the sender's intention
				// includes what the previous hop withheld)
				let intended_msat = *amount_msat + *counterparty_skimmed_fee_msat;
				if *counterparty_skimmed_fee_msat > 0 {
					v.rep.count("c04_claimable_with_skimmed_fee");
				}
				let ri = match w.regs.iter().position(|r| r.hash == *payment_hash && r.dst == node) {
					Some(r) => r,
					None => {
						v.violation("C04", "I1-authentic", "PaymentClaimable for a payment hash this node never issued", format!("node{} hash {}", node, vcore::hex(&payment_hash.0[..6])));
						return;
					},
				};
				let reg = &w.regs[ri];
				v.rep.count("c04_i1_claimable_events_checked");
				if reg.keysend.is_some() {
					v.rep.count("c04_i1_spontaneous_payments_claimable");
				}
				// parts that have arrived (irrevocably committed, unresolved) at this instant
				let arrived: Vec<usize> = self.hs.iter().enumerate().filter(|(_, h)| h.to == node && h.hash == payment_hash.0 && h.down.is_none() && self.phase(h) == HtlcPhase::Committed).map(|(i, _)| i).collect();
				let tainted = arrived.iter().any(|i| Self::chan_tainted(w, self.hs[*i].chan)) || self.restarted.contains(&node);
				let valid: Vec<usize> = arrived.iter().cloned().filter(|i| self.origin_of(*i).map(|pi| w.payments[pi].secret_ok).unwrap_or(false)).collect();
				let sum_valid: u64 = valid.iter().map(|i| self.hs[*i].amt).sum();
				let totals: BTreeSet<u64> = valid.iter().filter_map(|i| self.origin_of(*i)).map(|pi| w.payments[pi].declared_total).collect();
				if !tainted {
					if valid.is_empty() {
						v.violation("C04", "I1-authentic", "PaymentClaimable although no part carrying the issued secret has arrived", format!("node{} reg {} amount {}", node, ri, amount_msat));
					} else {
						if *amount_msat > sum_valid {
							v.violation("C04", "I1-complete", "PaymentClaimable reports more than the authentic parts that have arrived", format!("node{} reg {}: reported {}, arrived {}", node, ri, amount_msat, sum_valid));
						}
						if let Some(min) = reg.min_value {
							if intended_msat < min {
								v.violation("C04", "I1-complete", "PaymentClaimable for less than the amount committed to at registration", format!("node{} reg {}: reported {}, registered {}", node, ri, amount_msat, min));
							}
						}
						// some group of arrived parts that agree on the declared total must reach that total
						let ok_group = totals.iter().any(|t| {
							let sum: u64 = valid.iter().filter(|i| self.origin_of(**i).map(|pi| w.payments[pi].declared_total == *t).unwrap_or(false)).map(|i| self.hs[*i].amt).sum();
							sum + *counterparty_skimmed_fee_msat >= *t && intended_msat >= *t && *amount_msat <= sum
						});
						if !ok_group {
							v.violation("C04", "I1-complete", "PaymentClaimable although no set of arrived parts agreeing on the declared total reaches that total", format!("node{} reg {}: reported {}, declared totals {:?}, arrived {}", node, ri, amount_msat, totals, sum_valid));
						}
						if let Some(d) = reg.custom_final {
							// the recipient asked for at least d blocks: an HTLC that had fewer left when it was added
							// (the library checks this later still, when it processes the HTLC) must not be shown
							v.rep.count("c04_i1_custom_final_cltv_claimables_checked");
							for i in valid.iter() {
								let h = &self.hs[*i];
								if h.cltv < h.height_added + d as u32 {
									v.violation("C04", "I1-claim-window", "PaymentClaimable for an HTLC that expires sooner than the minimum final CLTV delta the payment was registered with", format!("node{} reg {}: expiry {}, added at height {}, registered delta {}", node, ri, h.cltv, h.height_added, d));
								}
							}
						}
						match claim_deadline {
							Some(d) => {
								let min_cltv = valid.iter().map(|i| self.hs[*i].cltv).min().unwrap();
								if *d <= w.chain.height() || *d > min_cltv {
									v.violation("C04", "I1-claim-window", "PaymentClaimable with an empty claim window or a deadline beyond an HTLC's expiry", format!("node{} reg {}: deadline {}, height {}, earliest expiry {}", node, ri, d, w.chain.height(), min_cltv));
								}
							},
							None => v.violation("C04", "I1-claim-window", "PaymentClaimable without a claim deadline", format!("node{} reg {}", node, ri)),
						}
					}
				}
				let r = self.rs.entry(ri).or_default();
				r.claimable_events += 1;
				if r.claim_height.is_none() {
					r.claimable_amount = *amount_msat;
					r.claimable_set = valid;
					r.deadline = *claim_deadline;
				}
			},
			Event::PaymentClaimed { payment_hash, amount_msat, .. } => {
				if let Some(ri) = w.regs.iter().position(|r| r.hash == *payment_hash && r.dst == node) {
					let r = self.rs.entry(ri).or_default();
					r.claimed_events += 1;
					v.rep.count("c04_i2_payment_claimed_checked");
					if !r.dst_restarted {
						if r.claim_height.is_none() {
							v.violation("C04", "I2-claim-window", "PaymentClaimed although claim_funds was never called", format!("node{} reg {}", node, ri));
						} else if *amount_msat != r.claimable_amount {
							v.violation("C04", "I2-claim-window", "PaymentClaimed reports a different amount than PaymentClaimable did", format!("node{} reg {}: claimed {}, claimable {}", node, ri, amount_msat, r.claimable_amount));
						}
					}
				}
			},
			Event::PaymentForwarded { prev_htlcs, next_htlcs, total_fee_earned_msat, outbound_amount_forwarded_msat, claim_from_onchain_tx, .. } => {
				if *claim_from_onchain_tx || prev_htlcs.len() != 1 || next_htlcs.len() != 1 {
					return;
				}
				let (pc, nc) = (prev_htlcs[0].channel_id, next_htlcs[0].channel_id);
				let (pci, nci) = match (w.chans.iter().position(|c| c.ids.contains(&pc)), w.chans.iter().position(|c| c.ids.contains(&nc))) {
					(Some(a), Some(b)) => (a, b),
					_ => return,
				};
				if Self::chan_tainted(w, pci) || Self::chan_tainted(w, nci) || self.restarted.contains(&node) {
					return;
				}
				v.rep.count("c02_f6_forwarded_events_checked");
				// a fulfilled forward pair on these channels not yet matched with an event
				let mut cand = self.hs.iter().enumerate().find(|(_, d)| d.chan == nci && d.from == node && d.fulfil_emitted && !d.forwarded_event && d.up.map(|u| self.hs[u].chan == pci).unwrap_or(false) && (prev_htlcs[0].htlc_id.is_none() || prev_htlcs[0].htlc_id == d.up.map(|u| self.hs[u].id))).map(|(i, _)| i);
				if cand.is_none() {
					// the upstream HTLC the pairing chose may be an indistinguishable twin (same hash, amount and
					// expiry, other channel or id) of the one the library forwarded
					cand = self.hs.iter().enumerate().find(|(_, d)| d.chan == nci && d.from == node && d.fulfil_emitted && !d.forwarded_event && d.up.map(|u| { let me = &self.hs[u]; self.hs.iter().any(|t| t.to == me.to && t.from == me.from && (t.chan, t.id) != (me.chan, me.id) && t.hash == me.hash && t.amt == me.amt && t.cltv == me.cltv && t.chan == pci) }).unwrap_or(false)).map(|(i, _)| i);
				}
				match cand {
					Some(di) => {
						self.hs[di].forwarded_event = true;
						let d = &self.hs[di];
						let u = &self.hs[d.up.unwrap()];
						if *total_fee_earned_msat != Some(u.amt - d.amt) || *outbound_amount_forwarded_msat != d.amt {
							v.violation("C02", "F6-forward-accounting", "PaymentForwarded reports a fee or amount different from the HTLCs it forwarded", format!("node{}: in {} out {} reported fee {:?} forwarded {}", node, u.amt, d.amt, total_fee_earned_msat, outbound_amount_forwarded_msat));
						}
					},
					None => v.violation("C02", "F6-forward-accounting", "PaymentForwarded reported but no fulfilled forward on these channels matches it", format!("node{}: prev chan {} next chan {}", node, pci, nci)),
				}
			},
			_ => {},
		}
	}
}
