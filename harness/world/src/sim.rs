//! The world: real LDK nodes, channels with their reference models, links with per-direction
//! FIFO queues, the harness chain, and the primitive actions the scheduler composes.
use crate::chain::{Block, Chain, TxVerdict};
use crate::model::{ChanType, Expected, Model, Params};
use crate::node::{Node, NodeCfg};
use crate::taps::*;
use crate::wire::{self, Popped, Wire};
use bitcoin::locktime::absolute::LockTime;
use bitcoin::secp256k1::PublicKey;
use bitcoin::transaction::Version;
use bitcoin::{Amount, Transaction, TxOut, Txid};
use lightning::chain::{BlockLocator, Confirm};
use lightning::events::Event;
use lightning::ln::channelmanager::PaymentId;
use lightning::ln::msgs::{self, BaseMessageHandler};
use lightning::ln::outbound_payment::RecipientOnionFields;
use lightning::ln::types::ChannelId;
use lightning::routing::router::{Path, PaymentParameters, Route, RouteHop, RouteParameters};
use lightning::types::features::{ChannelFeatures, NodeFeatures};
use lightning::types::payment::{PaymentHash, PaymentPreimage, PaymentSecret};
use lightning::util::config::UserConfig;
use std::collections::{HashMap, VecDeque};
use std::sync::atomic::Ordering;
use std::sync::Arc;
use vcore::Rng;

pub struct ChanRec {
	pub idx: usize,
	pub a: usize,
	pub b: usize,
	pub value_sat: u64,
	pub push_msat: u64,
	pub ids: Vec<ChannelId>,
	pub funding: Option<Transaction>,
	pub scid: Option<u64>,
	pub open: Option<msgs::OpenChannel>,
	pub accept: Option<msgs::AcceptChannel>,
	pub model: Option<Model>,
	pub ctype: ChanType,
	pub last_signed: [Option<CommitInfo>; 2],
	pub signed_txids: [HashMap<u64, Txid>; 2],
	pub ready: bool,
	pub closed: bool,
	/// an injected fault (corruption, forced close, stale restart …) makes errors/closes legitimate
	pub fault: Option<String>,
	pub coop_close_started: bool,
}
impl ChanRec {
	pub fn party(&self, node: usize) -> usize {
		if node == self.a {
			0
		} else {
			1
		}
	}
	pub fn node_of(&self, party: usize) -> usize {
		if party == 0 {
			self.a
		} else {
			self.b
		}
	}
	pub fn chan_id(&self) -> ChannelId {
		*self.ids.last().unwrap()
	}
	pub fn funding_txid(&self) -> Option<Txid> {
		self.funding.as_ref().map(|t| t.compute_txid())
	}
	pub fn peer_of(&self, node: usize) -> usize {
		if node == self.a {
			self.b
		} else {
			self.a
		}
	}
}

#[derive(Default)]
pub struct Link {
	pub connected: bool,
	/// q[0]: from the lower node index to the higher; q[1]: the other way
	pub q: [VecDeque<Wire>; 2],
}

#[derive(Clone, Debug)]
pub struct CommitCheck {
	pub chan: usize,
	pub signer_party: usize,
	pub got: CommitInfo,
	pub expected: Result<Expected, String>,
	pub mismatch: Option<String>,
	pub initial: bool,
}
#[derive(Clone, Debug)]
pub struct EmitObs {
	pub step: u64,
	pub from: usize,
	pub to: usize,
	pub chan: Option<usize>,
	pub wire: Wire,
	pub retrans: bool,
	pub commit: Option<CommitCheck>,
	pub dropped: bool,
}
#[derive(Clone, Debug)]
pub struct Probe {
	pub step: u64,
	pub node: usize,
	pub chan: usize,
	pub dst: usize,
	pub min: u64,
	pub limit: u64,
	pub amount: u64,
	pub quiet: bool,
	pub hash: [u8; 32],
	pub add_seen: Option<u64>, // htlc id
	pub claimable_seen: bool,
	pub failed_back: bool,
	pub judged: bool,
}

/// Observations handed to the property monitors, in the order they happened.
#[derive(Clone, Debug)]
pub enum Obs {
	Tap(Ev),
	Emit(EmitObs),
	Deliver { step: u64, from: usize, to: usize, chan: Option<usize>, wire: Wire },
	PeerDisconnectRequested { step: u64, from: usize, to: usize, msg: Option<String> },
	Event { step: u64, node: usize, ev: Event },
	Api { step: u64, node: usize, call: String, result: String },
	BlockConnected { step: u64, height: u32, txids: Vec<Txid> },
	Relay { step: u64, node: usize, tx: Transaction, verdict: TxVerdict },
	Restarted { step: u64, node: usize, stale: bool, stale_chans: Vec<usize>, /// step at which the manager that was read back had been serialized (None: at the stop)
		snapshot_step: Option<u64> },
	Unhandled { step: u64, node: usize, what: String },
	Probe(Probe),
	/// a chain notification is about to be given to the ChainMonitor of `node` (all taps before it are already in the stream)
	MonitorChainCall { step: u64, node: usize, height: u32, best_block: bool },
	/// the active chain lost its blocks above `fork_height` (the nodes have been told)
	Reorg { step: u64, fork_height: u32, disconnected: Vec<bitcoin::BlockHash>, unconfirmed: Vec<Txid> },
}

#[derive(Clone, Debug)]
pub struct Claimable {
	pub node: usize,
	pub hash: PaymentHash,
	pub preimage: Option<PaymentPreimage>,
	pub amount_msat: u64,
	pub deadline: Option<u32>,
	pub step: u64,
}
#[derive(Clone, Debug)]
pub struct PayRec {
	pub idx: usize,
	pub id: PaymentId,
	pub hash: PaymentHash,
	pub secret: PaymentSecret,
	pub src: usize,
	pub dst: usize,
	pub amt: u64,
	/// per part: channel indices along the path and the amount the first hop carries
	pub parts: Vec<(Vec<usize>, u64)>,
	/// per part: the amount delivered to the recipient
	pub part_amts: Vec<u64>,
	pub send_result: String,
	pub step: u64,
	/// the inbound-payment registration (at the recipient) this send pays
	pub reg: usize,
	/// total_msat declared in the onion (== amt for an ordinary send)
	pub declared_total: u64,
	/// whether the secret put in the onion is the one the recipient issued for this hash
	pub secret_ok: bool,
	/// workload class ("plain", "mpp", "wrong-secret", …)
	pub class: &'static str,
	pub final_cltv: u32,
	pub height_at_send: u32,
}
/// An inbound payment registered at a recipient with `create_inbound_payment`.
#[derive(Clone, Debug)]
pub struct Registration {
	pub idx: usize,
	pub dst: usize,
	pub hash: PaymentHash,
	pub secret: PaymentSecret,
	pub min_value: Option<u64>,
	pub step: u64,
	/// a spontaneous payment: nothing was registered, the sender chose this preimage and put it in the onion
	pub keysend: Option<PaymentPreimage>,
	/// the minimum final CLTV delta the recipient asked for when registering (None: the library's default)
	pub custom_final: Option<u16>,
}
/// How a send deviates from an ordinary single payment of a fresh registration.
#[derive(Clone, Debug, Default)]
pub struct SendOpts {
	/// pay an existing registration (further parts of an MPP) instead of a fresh one
	pub reg: Option<usize>,
	/// amount committed to at registration (fresh registration only)
	pub min_value: Option<u64>,
	/// total_msat to declare in the onion (default: sum of the parts)
	pub declared_total: Option<u64>,
	/// flip this bit of the payment secret
	pub secret_flip: Option<u8>,
	/// use the secret of another registration
	pub secret_of_reg: Option<usize>,
	/// final CLTV delta per part (default: the same `final_cltv` for every part)
	pub part_cltv: Option<Vec<u32>>,
	/// route the last hop of a two-hop payment over the forwarder's intercept scid (LSP-style forward)
	pub intercept: bool,
	/// register with an expiry of one second (and this custom minimum final CLTV delta, if any), then let block
	/// time pass until the registration has expired before the payment is sent: it must be refused
	pub expired: Option<Option<u16>>,
	/// a spontaneous payment (single part): the preimage travels in the onion, the recipient registered nothing
	pub keysend: bool,
	/// two-hop payments: change what the sender pays the forwarder (msat) / the CLTV delta it leaves it (blocks)
	/// relative to the forwarder's advertised policy; negative values must be refused by the forwarder
	pub skimp_fee: Option<i64>,
	pub skimp_delta: Option<i32>,
	/// register with this custom minimum final CLTV delta (the send's `final_cltv` is chosen around it by the caller)
	pub custom_final: Option<u16>,
	pub class: &'static str,
}

pub struct World {
	pub rng: Rng,
	pub log: Arc<EvLog>,
	pub log_cursor: usize,
	pub nodes: Vec<Node>,
	pub chans: Vec<ChanRec>,
	pub links: HashMap<(usize, usize), Link>,
	pub chain: Chain,
	pub obs: VecDeque<Obs>,
	pub step: u64,
	pub claimable: Vec<Claimable>,
	pub payments: Vec<PayRec>,
	pub regs: Vec<Registration>,
	pub script: Vec<String>,
	pub trace: bool,
	pub fee_now: u32,
	pub next_user_id: u128,
	pub funding_txs: HashMap<Txid, Transaction>,
	pub spendable: Vec<(usize, lightning::sign::SpendableOutputDescriptor)>,
	/// highest monitor update id handed to chain::Watch so far, per (node, channel)
	pub watch_counts: HashMap<(usize, ChannelId), u64>,
	/// per node: for each stored manager snapshot, the watch counts at the time it was taken
	pub snapshot_counts: Vec<Vec<HashMap<ChannelId, u64>>>,
	/// durable writes issued per node over the whole run (across restarts)
	pub total_writes: Vec<u64>,
	pub crashes_handled: u64,
	pub writes_at_open: Vec<u64>,
	// ---- on-chain scenarios ----
	pub captured: Vec<crate::onchain::Captured>,
	/// (node, commitment number) pairs: `node` has processed the revocation of its counterparty's commitment `number`
	pub revocations_seen: std::collections::HashSet<(usize, u64)>,
	/// counterparty commitment transactions by txid: (signing node, commitment number)
	pub cp_commit_numbers: HashMap<Txid, (usize, u64)>,
	pub close: Option<crate::onchain::CloseRecord>,
	pub attacker_htlc_txs: Vec<Transaction>,
	pub onchain_done: bool,
	/// miner policy: a relayed transaction is held back for up to this many blocks (0 = mined at once)
	pub miner_delay_max: u32,
	pub miner_release: HashMap<Txid, u32>,
	/// miner policy: a transaction (with its unconfirmed parents / children as a package) is only mined at
	/// or above this feerate in sat per 1000 weight (0 = no fee policy)
	pub miner_min_feerate: u32,
	pub fee_market_used: bool,
	/// transactions exempt from the miner's fee policy (the cheater's own, which nobody bumps)
	pub miner_exempt: std::collections::HashSet<Txid>,
	/// conclusive events handled so far, per node (chain-delivery comparisons)
	pub event_log: Vec<(usize, String)>,
	pub chain_equiv: bool,
	/// the on-chain phase reorganises the chain now and then (depth below the anti-reorg delay)
	pub reorgs: bool,
	/// the highest tip the chain ever had
	pub peak_height: u32,
	/// a share of the on-chain scenarios is shaped for the punishment of revoked states (C06)
	pub justice_focus: bool,
	/// on-chain scenario option: the non-closing party's manager hears of blocks late and sends one more
	/// HTLC after its monitor has seen the channel closed
	pub late_update: bool,
	/// blocks are given to this node's ChainMonitor only; its ChannelManager gets them at `release_held_blocks`
	pub hold_mgr_blocks: Option<usize>,
	pub held_blocks: Vec<Block>,
	/// payment hashes for which a node handled PaymentSent / PaymentFailed
	pub terminal_seen: std::collections::HashSet<(usize, [u8; 32])>,
	/// ... and which of the two it was
	pub sent_seen: std::collections::HashSet<(usize, [u8; 32])>,
	pub failed_seen: std::collections::HashSet<(usize, [u8; 32])>,
	/// heights (tip at that moment) at which the fee level of the on-chain phase rose
	pub fee_rises: Vec<u32>,
	/// every transaction a node relayed that the chain oracle found valid, in order: (node, txid)
	pub relayed_valid: Vec<(usize, Txid)>,
	/// scenario option: the first channel's opening pauses with the funding transaction in the mempool, and the
	/// driver forks the chain while that transaction is young (`openfork::phase`)
	pub open_forks: bool,
	pub open_paused: Option<usize>,
	/// chain-delivery copies that replay shallow forks of their own never disconnect the block at this height
	pub copy_reorg_floor: u32,
}

fn lk(a: usize, b: usize) -> ((usize, usize), usize) {
	if a < b {
		((a, b), 0)
	} else {
		((b, a), 1)
	}
}

impl World {
	pub fn new(seed_rng: Rng, node_cfgs: Vec<NodeCfg>, fee_now: u32, trace: bool) -> World {
		let log = Arc::new(EvLog::default());
		log.trace.store(trace && std::env::var("VERIF_TAP_TRACE").is_ok(), Ordering::Relaxed);
		let best = BlockLocator::new(bitcoin::constants::genesis_block(bitcoin::Network::Regtest).header.block_hash(), crate::chain::BASE_HEIGHT);
		let nodes: Vec<Node> = node_cfgs.into_iter().enumerate().map(|(i, c)| Node::new(i, c, &log, fee_now, best.clone())).collect();
		World { rng: seed_rng, log, log_cursor: 0, nodes, chans: vec![], links: HashMap::new(), chain: Chain::new(), obs: VecDeque::new(), step: 0, claimable: vec![], payments: vec![], regs: vec![], script: vec![], trace, fee_now, next_user_id: 1, funding_txs: HashMap::new(), spendable: vec![], watch_counts: HashMap::new(), snapshot_counts: vec![], total_writes: vec![], crashes_handled: 0, writes_at_open: vec![], captured: vec![], revocations_seen: Default::default(), cp_commit_numbers: HashMap::new(), close: None, attacker_htlc_txs: vec![], onchain_done: false, miner_delay_max: 0, miner_release: HashMap::new(), miner_min_feerate: 0, fee_market_used: false, miner_exempt: Default::default(), event_log: vec![], chain_equiv: false, reorgs: false, peak_height: crate::chain::BASE_HEIGHT, justice_focus: false, late_update: false, hold_mgr_blocks: None, held_blocks: vec![], terminal_seen: Default::default(), sent_seen: Default::default(), failed_seen: Default::default(), fee_rises: vec![], relayed_valid: vec![], open_forks: false, open_paused: None, copy_reorg_floor: 0 }
	}
	/// Whether the victim (the other party) has processed the revocation of this captured commitment.
	pub fn is_revoked(&self, c: &crate::onchain::Captured) -> bool {
		match self.cp_commit_numbers.get(&c.txid) {
			Some((signer, num)) => *signer != c.node && self.revocations_seen.contains(&(*signer, *num)),
			None => false,
		}
	}
	pub fn note(&mut self, s: String) {
		if self.trace {
			eprintln!("step {} {}", self.step, s);
		}
		self.log.push(Ev::Step { step: self.step, desc: s.clone() });
		self.script.push(format!("{}: {}", self.step, s));
		if self.script.len() > 400 {
			self.script.drain(..100);
		}
	}
	pub fn node_idx(&self, pk: &PublicKey) -> Option<usize> {
		self.nodes.iter().position(|n| n.id == *pk)
	}
	pub fn link(&mut self, a: usize, b: usize) -> &mut Link {
		self.links.entry(lk(a, b).0).or_default()
	}
	pub fn is_connected(&self, a: usize, b: usize) -> bool {
		self.links.get(&lk(a, b).0).map(|l| l.connected).unwrap_or(false)
	}
	pub fn queue_len(&self, from: usize, to: usize) -> usize {
		let (k, d) = lk(from, to);
		self.links.get(&k).map(|l| l.q[d].len()).unwrap_or(0)
	}
	pub fn chan_between(&self, a: usize, b: usize) -> Vec<usize> {
		self.chans.iter().filter(|c| (c.a == a && c.b == b) || (c.a == b && c.b == a)).map(|c| c.idx).collect()
	}
	pub fn find_chan(&self, from: usize, to: usize, id: Option<ChannelId>) -> Option<usize> {
		let cands = self.chan_between(from, to);
		if let Some(id) = id {
			if let Some(c) = cands.iter().find(|c| self.chans[**c].ids.contains(&id)) {
				return Some(*c);
			}
			// unknown id: belongs to the channel between these nodes that is still opening
			cands.iter().find(|c| !self.chans[**c].ready && !self.chans[**c].closed).cloned()
		} else {
			None
		}
	}

	// -----------------------------------------------------------------------------------------
	// taps -> observations
	// -----------------------------------------------------------------------------------------
	pub fn drain_taps(&mut self) {
		let new = self.log.since(self.log_cursor);
		self.log_cursor += new.len();
		for ev in new {
			match &ev {
				Ev::PersistNew { node, .. } | Ev::PersistUpdate { node, .. } => {
					while self.total_writes.len() <= *node {
						self.total_writes.push(0);
					}
					self.total_writes[*node] += 1;
				},
				Ev::WatchNew { node, chan, update_id, .. } | Ev::WatchUpdate { node, chan, update_id, .. } => {
					let e = self.watch_counts.entry((*node, *chan)).or_insert(0);
					*e = (*e).max(*update_id);
				},
				_ => {},
			}
			if let Ev::ValidateRevocation { node, idx, .. } = &ev {
				self.revocations_seen.insert((*node, *idx));
			}
			if let Ev::SignCounterparty { node, c, .. } = &ev {
				self.cp_commit_numbers.insert(c.txid, (*node, c.num));
				if let Some(ft) = c.funding {
					if let Some(ch) = self.chans.iter_mut().find(|ch| ch.funding_txid() == Some(ft)) {
						let p = ch.party(*node);
						ch.last_signed[p] = Some(c.clone());
					}
				}
			}
			self.obs.push_back(Obs::Tap(ev));
		}
		// keep the shared log bounded
		if self.log_cursor > 20_000 {
			self.log.truncate_before(self.log_cursor - 2_000);
			self.log_cursor = 2_000;
		}
	}

	// -----------------------------------------------------------------------------------------
	// emission: model update + commitment check + enqueue
	// -----------------------------------------------------------------------------------------
	pub fn apply_emit(&mut self, from: usize, to: usize, w: Wire) {
		let chan = self.find_chan(from, to, w.channel_id());
		let mut retrans = false;
		let mut commit = None;
		if let Some(ci) = chan {
			let step = self.step;
			let ch = &mut self.chans[ci];
			if let Some(id) = w.channel_id() {
				if !ch.ids.contains(&id) && !matches!(w, Wire::Error(_) | Wire::Warning(_)) {
					ch.ids.push(id);
				}
			}
			let party = ch.party(from);
			match &w {
				Wire::Open(m) => ch.open = Some(m.clone()),
				Wire::Accept(m) => ch.accept = Some(m.clone()),
				_ => {},
			}
			if ch.model.is_none() {
				if let (Some(o), Some(a)) = (&ch.open, &ch.accept) {
					let ct = a.common_fields.channel_type.as_ref().or(o.common_fields.channel_type.as_ref());
					let ctype = match ct {
						Some(t) if t.supports_anchor_zero_fee_commitments() => ChanType::ZeroFee,
						Some(t) if t.supports_anchors_zero_fee_htlc_tx() => ChanType::Anchors,
						_ => ChanType::Legacy,
					};
					ch.ctype = ctype;
					ch.model = Some(Model::new(Params { value_sat: o.common_fields.funding_satoshis, funder: 0, open_msat: [o.common_fields.funding_satoshis * 1000 - o.push_msat, o.push_msat], dust: [o.common_fields.dust_limit_satoshis, a.common_fields.dust_limit_satoshis], ctype, feerate: o.common_fields.commitment_feerate_sat_per_1000_weight }));
				}
			}
			let is_commit_carrier = matches!(w, Wire::CS(_) | Wire::Created(_) | Wire::Signed(_));
			if let Some(md) = ch.model.as_mut() {
				let got = if is_commit_carrier { ch.last_signed[party].clone() } else { None };
				let cs_num = got.as_ref().map(|g| g.num);
				if matches!(w, Wire::CS(_)) && got.is_none() {
					commit = Some(CommitCheck { chan: ci, signer_party: party, got: dummy_commit(), expected: Err("no signer event".into()), mismatch: Some("commitment_signed emitted but the channel signer was never asked to sign a counterparty commitment".into()), initial: false });
				} else {
					retrans = md.on_emit(party, &w, cs_num);
					if let Some(got) = got {
						let mut mismatch = None;
						// same number => same transaction as the first time it was signed
						if let Some(prev) = ch.signed_txids[party].get(&got.num) {
							if *prev != got.txid {
								mismatch = Some(format!("commitment number {} signed twice with different contents ({} vs {})", got.num, prev, got.txid));
							}
						} else {
							ch.signed_txids[party].insert(got.num, got.txid);
						}
						let expected = if retrans { Err("retransmission".to_string()) } else { md.expected(1 - party) };
						if !retrans {
							match &expected {
								Ok(exp) => {
									let mut eh = exp.nondust.clone();
									let mut gh = got.nondust.clone();
									let key = |h: &HtlcInfo| (h.offered, h.amount_msat, h.hash, h.cltv);
									eh.sort_by_key(key);
									gh.sort_by_key(key);
									if exp.to_broadcaster_sat != got.to_broadcaster_sat || exp.to_countersignatory_sat != got.to_countersignatory_sat {
										mismatch = Some(format!("balances: model to_broadcaster={} to_countersignatory={} but signed {} / {}", exp.to_broadcaster_sat, exp.to_countersignatory_sat, got.to_broadcaster_sat, got.to_countersignatory_sat));
									} else if eh != gh {
										mismatch = Some(format!("non-dust HTLC set differs: model {} HTLCs, signed {} HTLCs", eh.len(), gh.len()));
									} else if exp.feerate != got.feerate {
										mismatch = Some(format!("feerate: model {} signed {}", exp.feerate, got.feerate));
									} else if exp.out_sum != got.out_sum {
										mismatch = Some(format!("output sum: model {} signed {}", exp.out_sum, got.out_sum));
									} else if got.out_sum > got.value_sat && got.value_sat > 0 {
										mismatch = Some(format!("outputs {} exceed channel value {}", got.out_sum, got.value_sat));
									} else if got.tx.input.len() != 1 || Some(got.tx.input[0].previous_output.txid) != ch.funding.as_ref().map(|t| t.compute_txid()) {
										mismatch = Some("commitment does not spend exactly the funding output".to_string());
									}
								},
								Err(e) => mismatch = Some(e.clone()),
							}
						}
						commit = Some(CommitCheck { chan: ci, signer_party: party, got, expected, mismatch, initial: !matches!(w, Wire::CS(_)) });
					}
				}
			}
			let _ = step;
		}
		let (k, d) = lk(from, to);
		let connected = self.links.get(&k).map(|l| l.connected).unwrap_or(false);
		if self.trace {
			eprintln!("  step {} EMIT {}->{} {}{}{}", self.step, from, to, w.describe(), if retrans { " (retransmission)" } else { "" }, if connected { "" } else { " [dropped: not connected]" });
		}
		self.obs.push_back(Obs::Emit(EmitObs { step: self.step, from, to, chan, wire: w.clone(), retrans, commit, dropped: !connected }));
		if connected {
			self.links.get_mut(&k).unwrap().q[d].push_back(w);
		}
	}

	/// Pop everything the node wants to send. Returns requests to disconnect.
	pub fn pump(&mut self, n: usize) {
		let evs = self.nodes[n].mgr.get_and_clear_pending_msg_events();
		self.drain_taps();
		if self.nodes[n].persister.dead.load(Ordering::SeqCst) {
			return; // virtual crash: nothing escapes any more
		}
		// stable order: LDK iterates peers in hash-map order; messages for different peers are independent
		for ev in evs {
			match wire::split(ev) {
				Popped::Msgs(to, ws) => {
					if let Some(t) = self.node_idx(&to) {
						for w in ws {
							self.apply_emit(n, t, w);
						}
					}
				},
				Popped::Disconnect(to, msg) => {
					if let Some(t) = self.node_idx(&to) {
						let desc = msg.as_ref().map(|m| m.describe());
						self.obs.push_back(Obs::PeerDisconnectRequested { step: self.step, from: n, to: t, msg: desc.clone() });
						if self.trace {
							eprintln!("  step {} node {} asks to disconnect {} ({:?})", self.step, n, t, desc);
						}
						if let Some(m) = msg {
							if self.is_connected(n, t) {
								self.apply_emit(n, t, m.clone());
								// deliver the error/warning straight away, then drop the connection
								let (k, d) = lk(n, t);
								self.links.get_mut(&k).unwrap().q[d].pop_back();
								let from_id = self.nodes[n].id;
								wire::deliver(&self.nodes[t], from_id, &m);
								self.obs.push_back(Obs::Deliver { step: self.step, from: n, to: t, chan: None, wire: m });
							}
						}
						self.disconnect(n, t);
						self.pump(t);
					}
				},
				Popped::Nothing => {},
				Popped::Unhandled(s) => self.obs.push_back(Obs::Unhandled { step: self.step, node: n, what: s }),
			}
		}
	}

	pub fn connect(&mut self, a: usize, b: usize) {
		if self.is_connected(a, b) {
			return;
		}
		wire::connect(&self.nodes[a], &self.nodes[b]);
		self.link(a, b).connected = true;
		self.pump(a);
		self.pump(b);
	}
	pub fn disconnect(&mut self, a: usize, b: usize) {
		if !self.is_connected(a, b) {
			return;
		}
		wire::disconnect(&self.nodes[a], &self.nodes[b]);
		let l = self.link(a, b);
		l.connected = false;
		l.q[0].clear();
		l.q[1].clear();
	}
	/// Deliver the head of the queue from -> to. Returns false if the queue was empty.
	pub fn deliver_one(&mut self, from: usize, to: usize) -> bool {
		let (k, d) = lk(from, to);
		let w = match self.links.get_mut(&k).and_then(|l| l.q[d].pop_front()) {
			Some(w) => w,
			None => return false,
		};
		if self.trace {
			eprintln!("step {} DELIVER {}->{} {}", self.step, from, to, w.describe());
		}
		let chan = self.find_chan(from, to, w.channel_id());
		let from_id = self.nodes[from].id;
		wire::deliver(&self.nodes[to], from_id, &w);
		self.obs.push_back(Obs::Deliver { step: self.step, from, to, chan, wire: w });
		self.pump(to);
		true
	}
	pub fn deliver_all(&mut self, budget: usize) -> usize {
		let mut n = 0;
		loop {
			let mut any = false;
			let keys: Vec<(usize, usize)> = self.links.keys().cloned().collect();
			for (a, b) in keys {
				for (f, t) in [(a, b), (b, a)] {
					while n < budget && self.deliver_one(f, t) {
						n += 1;
						any = true;
					}
				}
			}
			if !any || n >= budget {
				return n;
			}
		}
	}

	// -----------------------------------------------------------------------------------------
	// events
	// -----------------------------------------------------------------------------------------
	pub fn process_events(&mut self, n: usize) -> usize {
		let evs = self.nodes[n].events();
		self.drain_taps();
		let cnt = evs.len();
		for e in evs {
			self.handle_event(n, e);
		}
		let mevs = self.nodes[n].monitor_events();
		self.drain_taps();
		for e in mevs {
			self.handle_event(n, e);
		}
		self.pump(n);
		cnt
	}
	fn handle_event(&mut self, n: usize, e: Event) {
		if self.trace {
			eprintln!("  step {} EVENT node{} {}", self.step, n, ev_name(&e));
		}
		match &e {
			Event::PaymentSent { payment_hash, .. } => {
				self.terminal_seen.insert((n, payment_hash.0));
				self.sent_seen.insert((n, payment_hash.0));
			},
			Event::PaymentFailed { payment_hash: Some(ph), .. } => {
				self.terminal_seen.insert((n, ph.0));
				self.failed_seen.insert((n, ph.0));
			},
			_ => {},
		}
		match &e {
			Event::OpenChannelRequest { temporary_channel_id, counterparty_node_id, .. } => {
				let uid = self.next_user_id;
				self.next_user_id += 1;
				let r = self.nodes[n].mgr.accept_inbound_channel(temporary_channel_id, counterparty_node_id, uid, None);
				self.obs.push_back(Obs::Api { step: self.step, node: n, call: "accept_inbound_channel".into(), result: format!("{:?}", r) });
			},
			Event::FundingGenerationReady { temporary_channel_id, counterparty_node_id, channel_value_satoshis, output_script, .. } => {
				let salt = self.funding_txs.len() as u32 + 1;
				let tx = Transaction { version: Version(2), lock_time: LockTime::from_consensus(salt), input: vec![], output: vec![TxOut { value: Amount::from_sat(*channel_value_satoshis), script_pubkey: output_script.clone() }] };
				if let Some(peer) = self.node_idx(counterparty_node_id) {
					if let Some(ci) = self.find_chan(n, peer, Some(*temporary_channel_id)) {
						self.chans[ci].funding = Some(tx.clone());
					}
				}
				self.funding_txs.insert(tx.compute_txid(), tx.clone());
				let r = self.nodes[n].mgr.funding_transaction_generated(*temporary_channel_id, *counterparty_node_id, tx);
				self.obs.push_back(Obs::Api { step: self.step, node: n, call: "funding_transaction_generated".into(), result: format!("{:?}", r) });
			},
			Event::PaymentClaimable { payment_hash, amount_msat, purpose, claim_deadline, .. } => {
				self.claimable.push(Claimable { node: n, hash: *payment_hash, preimage: purpose.preimage(), amount_msat: *amount_msat, deadline: *claim_deadline, step: self.step });
			},
			Event::HTLCIntercepted { intercept_id, payment_hash, expected_outbound_amount_msat, .. } => {
				// the LSP's duty: pick the real channel, optionally withhold an extra fee, forward (or refuse)
				if let Some(p) = self.payments.iter().rev().find(|p| p.hash == *payment_hash && p.class == "intercepted").cloned() {
					let ci = p.parts[0].0[1];
					let cid = self.chans[ci].chan_id();
					let next = self.nodes[p.dst].id;
					let skim = match self.rng.below(5) {
						0 => 0,
						1 => 1,
						2 => 1000u64.min(*expected_outbound_amount_msat / 2),
						_ => *expected_outbound_amount_msat / 20,
					};
					let r = if self.rng.chance(1, 10) { self.nodes[n].mgr.fail_intercepted_htlc(*intercept_id) } else { self.nodes[n].mgr.forward_intercepted_htlc(*intercept_id, &cid, next, *expected_outbound_amount_msat - skim) };
					self.obs.push_back(Obs::Api { step: self.step, node: n, call: format!("forward_intercepted_htlc skim={}", skim), result: format!("{:?}", r) });
					self.drain_taps();
				} else {
					let _ = self.nodes[n].mgr.fail_intercepted_htlc(*intercept_id);
				}
			},
			Event::BumpTransaction(bev) => {
				// the user's duty for anchor channels: hand the event to the library's own bump handler, backed by
				// a wallet with confirmed coins
				use lightning::events::bump_transaction::sync::BumpTransactionEventHandlerSync;
				use lightning::util::wallet_utils::WalletSync;
				let wallet = Arc::new(crate::onchain::wallet_of(self, n));
				let node = &self.nodes[n];
				let src = Arc::new(WalletSync::new(wallet, node.logger.clone()));
				let handler = BumpTransactionEventHandlerSync::new(node.bcast.clone(), src, node.keys.clone(), node.logger.clone());
				handler.handle_event(bev);
				self.drain_taps();
			},
			Event::SpendableOutputs { outputs, .. } => {
				for o in outputs {
					self.spendable.push((n, o.clone()));
				}
			},
			Event::ChannelClosed { channel_id, reason, .. } => {
				if let Some(c) = self.chans.iter_mut().find(|c| c.ids.contains(channel_id)) {
					c.closed = true;
					if matches!(reason, lightning::events::ClosureReason::OutdatedChannelManager) && c.fault.is_none() {
						c.fault = Some("closed at restart: ChannelManager older than the monitor".into());
					}
				}
			},
			_ => {},
		}
		if self.chain_equiv {
			if let Some(k) = crate::chainequiv::event_key(&e) {
				self.event_log.push((n, k));
			}
		}
		self.obs.push_back(Obs::Event { step: self.step, node: n, ev: e });
	}
	pub fn process_forwards(&mut self, n: usize) {
		if self.nodes[n].mgr.needs_pending_htlc_processing() {
			self.nodes[n].mgr.process_pending_htlc_forwards();
			self.pump(n);
		}
	}

	// -----------------------------------------------------------------------------------------
	// monitor update completion
	// -----------------------------------------------------------------------------------------
	/// Complete in-flight write number k of node n (0 = oldest).
	pub fn complete_update(&mut self, n: usize, k: usize) -> bool {
		let r = self.nodes[n].persister.complete(k);
		if let Some((chan, id)) = r {
			if self.trace {
				eprintln!("step {} COMPLETE node{} update {}", self.step, n, id);
			}
			self.log.push(Ev::Completed { node: n, chan, update_id: id });
			let res = self.nodes[n].mon.channel_monitor_updated(chan, id);
			self.obs.push_back(Obs::Api { step: self.step, node: n, call: format!("channel_monitor_updated({})", id), result: format!("{:?}", res) });
			// the manager learns about completion through monitor events when it next processes events / messages
			self.process_events(n);
			true
		} else {
			false
		}
	}
	pub fn complete_all(&mut self, n: usize) -> usize {
		let mut c = 0;
		while self.complete_update(n, 0) {
			c += 1;
			if c > 500 {
				break;
			}
		}
		c
	}
	pub fn flush_deferred(&mut self, n: usize, count: usize) -> usize {
		let pending = self.nodes[n].mon.pending_operation_count();
		let k = count.min(pending);
		if k > 0 {
			let lg = self.nodes[n].logger.clone();
			self.nodes[n].mon.flush(k, &lg);
			self.process_events(n);
		}
		k
	}

	// -----------------------------------------------------------------------------------------
	// chain
	// -----------------------------------------------------------------------------------------
	/// Relay what nodes have handed to their broadcaster; every transaction goes through the oracle.
	pub fn relay_broadcasts(&mut self) {
		for n in 0..self.nodes.len() {
			let txs: Vec<Transaction> = std::mem::take(&mut *self.nodes[n].bcast.queue.lock().unwrap());
			for tx in txs {
				let txid = tx.compute_txid();
				if self.funding_txs.contains_key(&txid) {
					self.chain.inject(tx.clone());
					self.obs.push_back(Obs::Relay { step: self.step, node: n, tx, verdict: TxVerdict::Valid });
					continue;
				}
				let mut v = self.chain.relay(&tx);
				if let TxVerdict::Invalid(why) = &v {
					if self.chain.height() < self.peak_height {
						v = TxVerdict::Invalid(format!("{} [tip below the highest tip seen]", why));
					}
				}
				if self.trace {
					eprintln!("  step {} RELAY node{} tx {} -> {:?}", self.step, n, txid, v);
				}
				if matches!(v, TxVerdict::Valid | TxVerdict::ValidChild) {
					self.relayed_valid.push((n, txid));
				}
				self.obs.push_back(Obs::Relay { step: self.step, node: n, tx, verdict: v });
			}
		}
	}
	pub fn connect_block_to_node(&mut self, n: usize, b: &Block) {
		let txdata: Vec<(usize, &Transaction)> = b.txs.iter().enumerate().map(|(i, t)| (i + 1, t)).collect();
		self.drain_taps();
		self.obs.push_back(Obs::MonitorChainCall { step: self.step, node: n, height: b.height, best_block: false });
		let held = self.hold_mgr_blocks == Some(n);
		self.nodes[n].mon.transactions_confirmed(&b.header, &txdata, b.height);
		self.drain_taps();
		if !held {
			self.nodes[n].mgr.transactions_confirmed(&b.header, &txdata, b.height);
			self.drain_taps();
		}
		self.obs.push_back(Obs::MonitorChainCall { step: self.step, node: n, height: b.height, best_block: true });
		self.nodes[n].mon.best_block_updated(&b.header, b.height);
		self.drain_taps();
		if held {
			self.held_blocks.push(b.clone());
		} else {
			self.nodes[n].mgr.best_block_updated(&b.header, b.height);
			self.drain_taps();
		}
	}
	/// Give the blocks held back from a node's ChannelManager to it, in order.
	pub fn release_held_blocks(&mut self) {
		if let Some(n) = self.hold_mgr_blocks.take() {
			for b in std::mem::take(&mut self.held_blocks) {
				let txdata: Vec<(usize, &Transaction)> = b.txs.iter().enumerate().map(|(i, t)| (i + 1, t)).collect();
				self.nodes[n].mgr.transactions_confirmed(&b.header, &txdata, b.height);
				self.drain_taps();
				self.nodes[n].mgr.best_block_updated(&b.header, b.height);
				self.drain_taps();
			}
			self.pump(n);
		}
	}
	/// Reorganise: the last `depth` blocks leave the active chain. Their transactions return to the mempool
	/// except those in `drop` (and whatever is not valid for the next block any more); every node is told in
	/// the transaction-oriented style it is driven with (`Confirm::transaction_unconfirmed` for what it
	/// watches, optionally followed by the fork point as the new tip). The competing blocks are mined by
	/// the caller afterwards.
	pub fn reorg(&mut self, depth: u32, drop: &std::collections::HashSet<Txid>, announce_fork_tip: bool) -> Vec<Block> {
		use lightning::chain::Confirm;
		self.relay_broadcasts();
		let mut gone: Vec<Block> = vec![];
		for _ in 0..depth {
			gone.push(self.chain.disconnect_tip());
		}
		let dropped = self.chain.revalidate_mempool(drop);
		let fork = self.chain.tip().clone();
		let hashes: Vec<bitcoin::BlockHash> = gone.iter().map(|b| b.header.block_hash()).collect();
		let unconfirmed: Vec<Txid> = gone.iter().flat_map(|b| b.txs.iter().map(|t| t.compute_txid())).collect();
		self.log.height.store(fork.height, Ordering::SeqCst);
		if self.trace {
			eprintln!("step {} REORG {} blocks disconnected, tip back at {}, {} txs unconfirmed, dropped from the mempool: {:?}", self.step, depth, fork.height, unconfirmed.len(), dropped);
		}
		self.drain_taps();
		self.obs.push_back(Obs::Reorg { step: self.step, fork_height: fork.height, disconnected: hashes.clone(), unconfirmed });
		for n in 0..self.nodes.len() {
			let rel = Confirm::get_relevant_txids(&*self.nodes[n].mon);
			for (txid, _, bh) in rel {
				if bh.map(|h| hashes.contains(&h)).unwrap_or(false) {
					self.nodes[n].mon.transaction_unconfirmed(&txid);
				}
			}
			self.drain_taps();
			let rel = Confirm::get_relevant_txids(&self.nodes[n].mgr);
			for (txid, _, bh) in rel {
				if bh.map(|h| hashes.contains(&h)).unwrap_or(false) {
					self.nodes[n].mgr.transaction_unconfirmed(&txid);
				}
			}
			self.drain_taps();
			if announce_fork_tip {
				self.nodes[n].mon.best_block_updated(&fork.header, fork.height);
				self.drain_taps();
				self.nodes[n].mgr.best_block_updated(&fork.header, fork.height);
				self.drain_taps();
			}
			self.pump(n);
		}
		self.relay_broadcasts();
		gone
	}
	pub fn mine(&mut self, blocks: u32) {
		for _ in 0..blocks {
			self.relay_broadcasts();
			let next_h = self.chain.height() + 1;
			let dmax = self.miner_delay_max;
			// fee policy: decide per package before mining
			let mut too_cheap: std::collections::HashSet<Txid> = Default::default();
			if self.miner_min_feerate > 0 {
				let pool = self.chain.mempool.clone();
				let fee_w = |tx: &Transaction, all: &HashMap<bitcoin::OutPoint, TxOut>| -> (u64, u64) {
					let inv: u64 = tx.input.iter().map(|i| all.get(&i.previous_output).map(|o| o.value.to_sat()).unwrap_or(0)).sum();
					let outv: u64 = tx.output.iter().map(|o| o.value.to_sat()).sum();
					(inv.saturating_sub(outv), tx.weight().to_wu())
				};
				for tx in pool.iter() {
					if tx.input.is_empty() {
						continue;
					}
					let txid = tx.compute_txid();
					let (mut f, mut wt) = fee_w(tx, &self.chain.all_outputs);
					for other in pool.iter() {
						let oid = other.compute_txid();
						if oid == txid || other.input.is_empty() {
							continue;
						}
						let is_child = other.input.iter().any(|i| i.previous_output.txid == txid);
						let is_parent = tx.input.iter().any(|i| i.previous_output.txid == oid);
						if is_child || is_parent {
							let (f2, w2) = fee_w(other, &self.chain.all_outputs);
							f += f2;
							wt += w2;
						}
					}
					if f * 1000 / wt.max(1) < self.miner_min_feerate as u64 && !self.miner_exempt.contains(&txid) {
						if self.trace {
							eprintln!("  step {} MINER holds {} back: package pays {} sat/kw, policy {}", self.step, txid, f * 1000 / wt.max(1), self.miner_min_feerate);
						}
						too_cheap.insert(txid);
					}
				}
			}
			let b = if dmax == 0 && too_cheap.is_empty() {
				self.chain.mine(|_| true)
			} else if dmax == 0 {
				self.chain.mine(|tx| !too_cheap.contains(&tx.compute_txid()))
			} else {
				let (rng, rel) = (&mut self.rng, &mut self.miner_release);
				self.chain.mine(|tx| {
					let r = rel.entry(tx.compute_txid()).or_insert_with(|| next_h + if rng.chance(1, 2) { 0 } else { rng.below(dmax as u64 + 1) as u32 });
					next_h >= *r && !too_cheap.contains(&tx.compute_txid())
				})
			};
			self.log.height.store(b.height, Ordering::SeqCst);
			self.peak_height = self.peak_height.max(b.height);
			if self.trace {
				eprintln!("step {} MINE height {} with {} txs", self.step, b.height, b.txs.len());
			}
			self.drain_taps();
			self.obs.push_back(Obs::BlockConnected { step: self.step, height: b.height, txids: b.txs.iter().map(|t| t.compute_txid()).collect() });
			for n in 0..self.nodes.len() {
				self.connect_block_to_node(n, &b);
				// (a manager that is being kept behind its monitor is not polled either: polling hands it the
				// monitor's events)
				if self.hold_mgr_blocks != Some(n) {
					self.pump(n);
				}
			}
		}
		self.relay_broadcasts();
	}

	// -----------------------------------------------------------------------------------------
	// channel opening (run to completion; monitors observe it like everything else)
	// -----------------------------------------------------------------------------------------
	pub fn open_channel(&mut self, a: usize, b: usize, value_sat: u64, push_msat: u64, override_cfg: Option<UserConfig>, chaos: bool) -> Result<usize, String> {
		self.connect(a, b);
		let idx = self.chans.len();
		let uid = self.next_user_id;
		self.next_user_id += 1;
		let bid = self.nodes[b].id;
		let temp = self.nodes[a].mgr.create_channel(bid, value_sat, push_msat, uid, None, override_cfg).map_err(|e| format!("create_channel: {:?}", e))?;
		self.chans.push(ChanRec { idx, a, b, value_sat, push_msat, ids: vec![temp], funding: None, scid: None, open: None, accept: None, model: None, ctype: ChanType::Legacy, last_signed: [None, None], signed_txids: [HashMap::new(), HashMap::new()], ready: false, closed: false, fault: None, coop_close_started: false });
		self.note(format!("OPEN channel {} between node{} and node{} value={} push_msat={}", idx, a, b, value_sat, push_msat));
		self.pump(a);
		let mut mined = false;
		// chaotic phase: random interleaving of deliveries, completions, events, blocks and reconnects
		if chaos {
			for _round in 0..400 {
				let pick = self.rng.below(16);
				let n = if self.rng.chance(1, 2) { a } else { b };
				match pick {
					0..=5 => {
						let (f, t) = if self.rng.chance(1, 2) { (a, b) } else { (b, a) };
						self.deliver_one(f, t);
					},
					6 | 7 => {
						let pend = self.nodes[n].persister.pending().len();
						if pend > 0 {
							let k = self.rng.below(pend as u64) as usize;
							self.complete_update(n, k);
						}
					},
					8 | 9 => {
						self.process_events(n);
					},
					10 | 11 => {
						self.relay_broadcasts();
						let in_pool = self.chans[idx].funding.is_some() && self.chain.mempool.iter().any(|t| Some(t.compute_txid()) == self.chans[idx].funding_txid());
						if in_pool || mined {
							self.mine(1);
							mined = true;
						}
					},
					12 => {
						let pend = self.nodes[n].mon.pending_operation_count();
						if pend > 0 {
							let k = 1 + self.rng.below(pend as u64) as usize;
							self.flush_deferred(n, k);
						}
					},
					13 => {
						// unfunded channels are legitimately dropped on disconnect: only disturb funded ones
						let funded = self.chans[idx].funding_txid().map(|t| self.chain.seen.contains(&t)).unwrap_or(false);
						if funded && self.rng.chance(1, 3) {
							self.note(format!("OPEN-CHAOS disconnect/reconnect node{} node{}", a, b));
							self.disconnect(a, b);
							self.connect(a, b);
						}
					},
					_ => {
						// (no timer ticks here: unaccepted inbound channels are legitimately dropped after a few ticks)
						self.process_events(n);
					},
				}
				let cid = self.chans[idx].chan_id();
				if self.nodes[a].mgr.list_usable_channels().iter().any(|c| c.channel_id == cid) && self.nodes[b].mgr.list_usable_channels().iter().any(|c| c.channel_id == cid) && self.queue_len(a, b) == 0 && self.queue_len(b, a) == 0 {
					break;
				}
				if self.chans[idx].closed {
					return Err(format!("channel {} was closed while opening", idx));
				}
			}
			self.connect(a, b);
		}
		self.open_loop(idx, mined, !chaos)
	}
	/// Second half of `open_channel` for a channel whose opening was paused with its funding transaction in the
	/// mempool (`open_forks`): the chain work has been done by the caller.
	pub fn finish_open(&mut self, idx: usize) -> Result<usize, String> {
		self.open_loop(idx, true, false)
	}
	fn open_loop(&mut self, idx: usize, mut mined: bool, may_pause: bool) -> Result<usize, String> {
		let (a, b) = (self.chans[idx].a, self.chans[idx].b);
		for _round in 0..200 {
			let mut progress = false;
			for n in [a, b] {
				while self.deliver_one(self.chans[idx].peer_of(n), n) {
					progress = true;
				}
				self.complete_all(n);
				let pend = self.nodes[n].mon.pending_operation_count();
				if pend > 0 {
					self.flush_deferred(n, pend);
					progress = true;
				}
				if self.process_events(n) > 0 {
					progress = true;
				}
			}
			self.relay_broadcasts();
			if !mined && self.chans[idx].funding.is_some() && self.chain.mempool.iter().any(|t| Some(t.compute_txid()) == self.chans[idx].funding_txid()) {
				if may_pause && self.open_forks && self.open_paused.is_none() {
					// the caller mines (and forks) the chain while the funding transaction is young, then calls `finish_open`
					self.open_paused = Some(idx);
					return Ok(idx);
				}
				self.mine(8);
				mined = true;
				progress = true;
			}
			let ua = self.nodes[a].mgr.list_usable_channels();
			let ub = self.nodes[b].mgr.list_usable_channels();
			let cid = self.chans[idx].chan_id();
			if let (Some(ca), Some(_cb)) = (ua.iter().find(|c| c.channel_id == cid), ub.iter().find(|c| c.channel_id == cid)) {
				if self.queue_len(a, b) == 0 && self.queue_len(b, a) == 0 {
					self.chans[idx].scid = ca.short_channel_id;
					self.chans[idx].ready = true;
					return Ok(idx);
				}
			}
			if !progress && mined {
				break;
			}
		}
		Err(format!("channel {} did not become usable", idx))
	}

	// -----------------------------------------------------------------------------------------
	// payments
	// -----------------------------------------------------------------------------------------
	/// Forwarding fee node `via` charges for forwarding `amt` over channel `ci`.
	pub fn forwarding_fee(&self, via: usize, ci: usize, amt: u64) -> (u64, u32) {
		let cid = self.chans[ci].chan_id();
		let det = self.nodes[via].mgr.list_channels().into_iter().find(|c| c.channel_id == cid);
		match det.and_then(|d| d.config) {
			Some(c) => (c.forwarding_fee_base_msat as u64 + (amt as u128 * c.forwarding_fee_proportional_millionths as u128 / 1_000_000) as u64, c.cltv_expiry_delta as u32),
			None => (1000, 72),
		}
	}
	/// Build one path through the given channels starting at `src`, delivering `amt`, optionally
	/// distorting the fee of hop `skimp.0` by `skimp.1` msat (negative = underpay).
	pub fn build_path(&self, src: usize, chans: &[usize], amt: u64, final_cltv: u32, skimp: Option<(usize, i64)>) -> (Path, usize) {
		// walk forward to learn the nodes
		let mut nodes = vec![src];
		for ci in chans {
			let last = *nodes.last().unwrap();
			nodes.push(self.chans[*ci].peer_of(last));
		}
		let n = chans.len();
		let mut hops: Vec<RouteHop> = vec![];
		let mut carry = amt;
		let mut fees = vec![0u64; n];
		let mut deltas = vec![0u32; n];
		deltas[n - 1] = final_cltv;
		fees[n - 1] = amt;
		for i in (0..n - 1).rev() {
			// node nodes[i+1] forwards over chans[i+1] carrying `carry`
			let (fee, delta) = self.forwarding_fee(nodes[i + 1], chans[i + 1], carry);
			let mut f = fee as i64;
			if let Some((k, d)) = skimp {
				if k == i {
					f = (f + d).max(0);
				}
			}
			fees[i] = f as u64;
			deltas[i] = delta;
			carry += f as u64;
		}
		for i in 0..n {
			let ch = &self.chans[chans[i]];
			hops.push(RouteHop { pubkey: self.nodes[nodes[i + 1]].id, node_features: NodeFeatures::empty(), short_channel_id: ch.scid.unwrap_or(0), channel_features: ChannelFeatures::empty(), fee_msat: fees[i], cltv_expiry_delta: deltas[i], maybe_announced_channel: false });
		}
		(Path { hops, blinded_tail: None }, *nodes.last().unwrap())
	}
	pub fn new_payment_id(&self) -> PaymentId {
		let mut b = [0u8; 32];
		b[..8].copy_from_slice(&(self.payments.len() as u64 + 1).to_le_bytes());
		PaymentId(b)
	}
	/// Send a payment along explicit parts. Each part: (channels from src, amount delivered).
	pub fn send_payment(&mut self, src: usize, parts: &[(Vec<usize>, u64)], final_cltv: u32, min_value: Option<u64>, probe: Option<Probe>) -> Result<usize, String> {
		self.send_payment_ex(src, parts, final_cltv, SendOpts { min_value, class: if parts.len() > 1 { "mpp" } else { "plain" }, ..Default::default() }, probe)
	}
	/// The general form: see `SendOpts`.
	pub fn send_payment_ex(&mut self, src: usize, parts: &[(Vec<usize>, u64)], final_cltv: u32, opts: SendOpts, probe: Option<Probe>) -> Result<usize, String> {
		let total: u64 = parts.iter().map(|p| p.1).sum();
		let mut paths = vec![];
		let mut dst = src;
		for (k, (chans, amt)) in parts.iter().enumerate() {
			let fc = opts.part_cltv.as_ref().and_then(|v| v.get(k).cloned()).unwrap_or(final_cltv);
			let (mut p, d) = self.build_path(src, chans, *amt, fc, None);
			if p.hops.len() == 2 {
				if let Some(d) = opts.skimp_fee {
					p.hops[0].fee_msat = (p.hops[0].fee_msat as i64 + d).max(0) as u64;
				}
				if let Some(d) = opts.skimp_delta {
					p.hops[0].cltv_expiry_delta = (p.hops[0].cltv_expiry_delta as i64 + d as i64).max(0) as u32;
				}
			}
			if opts.intercept && p.hops.len() == 2 {
				let fwd = self.chans[chans[0]].peer_of(src);
				p.hops[1].short_channel_id = self.nodes[fwd].mgr.get_intercept_scid();
			}
			paths.push(p);
			dst = d;
		}
		let reg = match opts.reg {
			Some(r) => r,
			None if opts.keysend => {
				let preimage = PaymentPreimage(self.rng.bytes());
				let hash = { use bitcoin::hashes::Hash as _; PaymentHash(bitcoin::hashes::sha256::Hash::hash(&preimage.0).to_byte_array()) };
				self.regs.push(Registration { idx: self.regs.len(), dst, hash, secret: PaymentSecret([0; 32]), min_value: None, step: self.step, keysend: Some(preimage), custom_final: None });
				self.regs.len() - 1
			},
			None => {
				let (expiry_secs, custom_cltv) = match opts.expired {
					Some(c) => (1u32, c),
					None => (7200u32, opts.custom_final),
				};
				let (hash, secret, _) = self.nodes[dst].mgr.create_inbound_payment(opts.min_value, expiry_secs, custom_cltv, None).map_err(|_| "create_inbound_payment failed".to_string())?;
				self.regs.push(Registration { idx: self.regs.len(), dst, hash, secret, min_value: opts.min_value, step: self.step, keysend: None, custom_final: custom_cltv });
				if opts.expired.is_some() {
					// block time (600 s per block) passes the expiry and the two hours the library adds to it
					self.note(format!("EXPIRE registration {} of node{} (custom final cltv delta {:?}): 15 blocks pass", self.regs.len() - 1, dst, custom_cltv));
					self.mine(15);
				}
				self.regs.len() - 1
			},
		};
		let hash = self.regs[reg].hash;
		let mut secret = self.regs[reg].secret;
		let mut secret_ok = true;
		if let Some(o) = opts.secret_of_reg {
			secret = self.regs[o].secret;
			secret_ok = o == reg;
		}
		if opts.expired.is_some() {
			secret_ok = false;
		}
		if let Some(bit) = opts.secret_flip {
			secret.0[(bit / 8) as usize] ^= 1 << (bit % 8);
			secret_ok = false;
		}
		let declared = opts.declared_total.unwrap_or(total);
		let dst_id = self.nodes[dst].id;
		let route = Route { paths, route_params: RouteParameters { payment_params: PaymentParameters::from_node_id(dst_id, final_cltv), final_value_msat: total, max_total_routing_fee_msat: None } };
		let id = self.new_payment_id();
		if let Some(mut p) = probe {
			p.hash = hash.0;
			p.dst = dst;
			self.obs.push_back(Obs::Probe(p));
		}
		let first_amts: Vec<u64> = route.paths.iter().map(|p| p.hops.iter().map(|h| h.fee_msat).sum()).collect();
		let height = self.chain.height();
		let idx = self.payments.len();
		// (the record exists before the call so that monitors can attribute the HTLCs the call emits)
		self.payments.push(PayRec { idx, id, hash, secret, src, dst, amt: total, parts: parts.iter().zip(first_amts.iter()).map(|(p, f)| (p.0.clone(), *f)).collect(), part_amts: parts.iter().map(|p| p.1).collect(), send_result: String::new(), step: self.step, reg, declared_total: declared, secret_ok, class: if opts.class.is_empty() { "plain" } else { opts.class }, final_cltv, height_at_send: height });
		self.obs.push_back(Obs::Api { step: self.step, node: src, call: format!("sending_payment#{}", idx), result: String::new() });
		let r = match self.regs[reg].keysend {
			Some(preimage) => {
				let params = route.route_params.clone();
				self.nodes[src].router.scripted.lock().unwrap().push_back(route);
				let r = self.nodes[src].mgr.send_spontaneous_payment(Some(preimage), RecipientOnionFields::spontaneous_empty(declared), id, params, lightning::ln::outbound_payment::Retry::Attempts(0));
				self.nodes[src].router.scripted.lock().unwrap().clear();
				r.map(|_| ()).map_err(|e| format!("{:?}", e))
			},
			None => self.nodes[src].mgr.send_payment_with_route(route, hash, RecipientOnionFields::secret_only(secret, declared), id).map_err(|e| format!("{:?}", e)),
		};
		let res = format!("{:?}", r);
		self.payments[idx].send_result = res.clone();
		self.drain_taps();
		self.obs.push_back(Obs::Api { step: self.step, node: src, call: format!("send_payment#{} amt={} parts={}", idx, total, parts.len()), result: res.clone() });
		self.pump(src);
		if r.is_ok() {
			Ok(idx)
		} else {
			Err(res)
		}
	}
	/// A second send under the payment id of payment `k` (must be refused while `k` is pending).
	pub fn dup_send(&mut self, k: usize) {
		let p = self.payments[k].clone();
		let mut paths = vec![];
		for ((chans, _), amt) in p.parts.iter().zip(p.part_amts.iter()) {
			paths.push(self.build_path(p.src, chans, *amt, p.final_cltv, None).0);
		}
		let dst_id = self.nodes[p.dst].id;
		let route = Route { paths, route_params: RouteParameters { payment_params: PaymentParameters::from_node_id(dst_id, p.final_cltv), final_value_msat: p.amt, max_total_routing_fee_msat: None } };
		let pending = self.nodes[p.src].mgr.list_recent_payments().iter().any(|d| matches!(d, lightning::ln::channelmanager::RecentPaymentDetails::Pending { payment_id, .. } if *payment_id == p.id));
		if !pending {
			return; // (once the id is free again a send under it is a new payment)
		}
		let r = self.nodes[p.src].mgr.send_payment_with_route(route, p.hash, RecipientOnionFields::secret_only(p.secret, p.declared_total), p.id);
		self.drain_taps();
		self.obs.push_back(Obs::Api { step: self.step, node: p.src, call: format!("dup_send#{} listed_pending={}", k, pending), result: format!("{:?}", r) });
		self.pump(p.src);
	}
	/// Process pending events with a handler that refuses the event at position `fail_at`.
	pub fn process_events_failing(&mut self, n: usize, fail_at: usize) -> usize {
		let evs = self.nodes[n].events_failing(fail_at);
		self.drain_taps();
		let cnt = evs.len();
		self.obs.push_back(Obs::Api { step: self.step, node: n, call: format!("event handler refused the event at position {}", fail_at), result: String::new() });
		for e in evs {
			self.handle_event(n, e);
		}
		self.pump(n);
		cnt
	}
	pub fn process_events_refusing(&mut self, n: usize, refuse: &dyn Fn(&Event) -> bool) -> bool {
		let (evs, refused) = self.nodes[n].events_refusing(refuse);
		self.drain_taps();
		if refused {
			self.obs.push_back(Obs::Api { step: self.step, node: n, call: "event handler refused a chosen event".into(), result: String::new() });
		}
		for e in evs {
			self.handle_event(n, e);
		}
		let mevs = self.nodes[n].monitor_events();
		self.drain_taps();
		for e in mevs {
			self.handle_event(n, e);
		}
		self.pump(n);
		refused
	}
	pub fn claim(&mut self, k: usize) {
		let c = self.claimable.remove(k);
		if let Some(p) = c.preimage {
			self.obs.push_back(Obs::Api { step: self.step, node: c.node, call: format!("claim_funds hash={}", vcore::hex(&c.hash.0[..6])), result: String::new() });
			self.nodes[c.node].mgr.claim_funds(p);
			self.drain_taps();
			self.process_events(c.node);
		}
	}
	pub fn fail_back(&mut self, k: usize) {
		let c = self.claimable.remove(k);
		self.obs.push_back(Obs::Api { step: self.step, node: c.node, call: format!("fail_htlc_backwards hash={}", vcore::hex(&c.hash.0[..6])), result: String::new() });
		self.nodes[c.node].mgr.fail_htlc_backwards(&c.hash);
		self.drain_taps();
		self.process_forwards(c.node);
		self.pump(c.node);
	}

	// -----------------------------------------------------------------------------------------
	// restart from persisted state
	// -----------------------------------------------------------------------------------------
	/// Stop node `n` and rebuild it from a serialized manager (None = serialize now, Some(k) = k-th
	/// stored snapshot) and, per channel, the durable monitor on the model disk. `reached_disk[i]`
	/// says whether in-flight write i made it to the disk before the stop. Returns Err if reading
	/// back fails (which is itself a finding the caller reports).
	pub fn restart(&mut self, n: usize, snapshot: Option<usize>, reached_disk: &[bool]) -> Result<Vec<usize>, String> {
		use lightning::util::ser::Writeable;
		// 1. what is on disk
		let mut disk = std::mem::take(&mut *self.nodes[n].persister.disk.lock().unwrap());
		let inflight = std::mem::take(&mut disk.inflight);
		for (i, w) in inflight.into_iter().enumerate() {
			if reached_disk.get(i).cloned().unwrap_or(false) {
				let newer = disk.durable.get(&w.chan).map(|o| o.seq < w.seq).unwrap_or(true);
				if newer {
					disk.durable.insert(w.chan, w);
				}
			}
		}
		let snapshot_step: Option<u64> = snapshot.and_then(|k| { let sn = &self.nodes[n].snapshots; sn.get(k.min(sn.len().saturating_sub(1))).map(|x| x.0) });
		let (mgr_bytes, stale) = match snapshot {
			None => (self.nodes[n].mgr.encode(), false),
			Some(k) => {
				let snaps = &self.nodes[n].snapshots;
				let k = k.min(snaps.len().saturating_sub(1));
				if snaps.is_empty() {
					(self.nodes[n].mgr.encode(), false)
				} else {
					(snaps[k].1.clone(), k + 1 < snaps.len() || true)
				}
			},
		};
		let stale_chans: Vec<usize> = vec![];
		let monitors: Vec<(ChannelId, Vec<u8>)> = disk.durable.iter().map(|(c, w)| (*c, w.bytes.clone())).collect();
		if self.trace {
			for (c, w) in disk.durable.iter() {
				eprintln!("  restart node{}: durable monitor {} at update {} (write seq {})", n, c, w.latest, w.seq);
			}
		}
		// 2. the rest of the world sees the peer go away
		let peers: Vec<usize> = (0..self.nodes.len()).filter(|p| *p != n && self.is_connected(n, *p)).collect();
		for p in peers.iter() {
			self.nodes[*p].mgr.peer_disconnected(self.nodes[n].id);
			let l = self.link(n, *p);
			l.connected = false;
			l.q[0].clear();
			l.q[1].clear();
		}
		// 3. rebuild
		let cfg = self.nodes[n].cfg.clone();
		let generation = self.nodes[n].generation + 1;
		let fee_now = self.fee_now;
		let kept_snaps: Vec<(u64, Vec<u8>)> = match snapshot {
			Some(k) => self.nodes[n].snapshots.iter().take(k + 1).cloned().collect(),
			None => self.nodes[n].snapshots.clone(),
		};
		// the old node must not broadcast or persist anything from now on
		self.nodes[n].bcast.dead.store(true, Ordering::SeqCst);
		self.nodes[n].persister.dead.store(true, Ordering::SeqCst);
		let newn = Node::reload(n, cfg, &self.log, fee_now, &mgr_bytes, &monitors, disk, generation)?;
		self.nodes[n] = newn;
		self.nodes[n].snapshots = kept_snaps;
		if let (Some(k), Some(v)) = (snapshot, self.snapshot_counts.get_mut(n)) {
			v.truncate(k + 1);
		}
		self.drain_taps();
		let _ = stale;
		self.obs.push_back(Obs::Restarted { step: self.step, node: n, stale: snapshot.is_some(), stale_chans: stale_chans.clone(), snapshot_step });
		// 4. bring every object to the chain tip from its own best block
		self.resync_node(n);
		self.pump(n);
		self.process_events(n);
		Ok(stale_chans)
	}
	pub fn snapshot(&mut self, n: usize) {
		let step = self.step;
		self.nodes[n].snapshot(step);
		while self.snapshot_counts.len() <= n {
			self.snapshot_counts.push(vec![]);
		}
		let counts: HashMap<ChannelId, u64> = self.watch_counts.iter().filter(|((node, _), _)| *node == n).map(|((_, c), v)| (*c, *v)).collect();
		self.snapshot_counts[n].push(counts);
		if self.snapshot_counts[n].len() > 8 {
			self.snapshot_counts[n].remove(0);
		}
	}
	/// Replay blocks to a freshly loaded node: the manager and each monitor from their own best block.
	/// What a `Confirm` client does after a restart: whatever an object (read back from a possibly older
	/// write) believes confirmed in a block that is not on the active chain is unconfirmed; if the object's
	/// own tip is not on the active chain, the transactions of the last blocks it may have seen differently
	/// (forks are shallower than the anti-reorg delay) are given again – what it already has in the same
	/// block is ignored by the library – and then the tip; otherwise every block above its tip.
	pub fn resync_node(&mut self, n: usize) {
		use lightning::chain::Confirm;
		let tip = self.chain.height();
		let base = crate::chain::BASE_HEIGHT;
		let node = &self.nodes[n];
		let on_chain = |h: u32, hash: &bitcoin::BlockHash| h <= tip && h >= base && self.chain.block_at(h).header.block_hash() == *hash;
		for (txid, h, bh) in Confirm::get_relevant_txids(&node.mgr) {
			if bh.map(|b| !on_chain(h, &b)).unwrap_or(false) {
				node.mgr.transaction_unconfirmed(&txid);
			}
		}
		let loc = node.mgr.current_best_block();
		if on_chain(loc.height, &loc.block_hash) {
			for h in (loc.height + 1)..=tip {
				let b = self.chain.block_at(h);
				let txdata: Vec<(usize, &Transaction)> = b.txs.iter().enumerate().map(|(i, t)| (i + 1, t)).collect();
				node.mgr.transactions_confirmed(&b.header, &txdata, b.height);
				node.mgr.best_block_updated(&b.header, b.height);
			}
		} else {
			for h in (loc.height.saturating_sub(5).max(base + 1))..=tip {
				let b = self.chain.block_at(h);
				let txdata: Vec<(usize, &Transaction)> = b.txs.iter().enumerate().map(|(i, t)| (i + 1, t)).collect();
				node.mgr.transactions_confirmed(&b.header, &txdata, b.height);
			}
			let b = self.chain.tip();
			node.mgr.best_block_updated(&b.header, b.height);
		}
		for cid in node.mon.list_monitors() {
			if let Ok(m) = node.mon.get_monitor(cid) {
				for (txid, h, bh) in m.get_relevant_txids() {
					if bh.map(|b| !on_chain(h, &b)).unwrap_or(false) {
						m.transaction_unconfirmed(&txid, &*node.bcast, &*node.fee, &*node.logger);
					}
				}
				let loc = m.current_best_block();
				if on_chain(loc.height, &loc.block_hash) {
					for h in (loc.height + 1)..=tip {
						let b = self.chain.block_at(h);
						let txdata: Vec<(usize, &Transaction)> = b.txs.iter().enumerate().map(|(i, t)| (i + 1, t)).collect();
						m.transactions_confirmed(&b.header, &txdata, b.height, &*node.bcast, &*node.fee, &*node.logger);
						m.best_block_updated(&b.header, b.height, &*node.bcast, &*node.fee, &*node.logger);
					}
				} else {
					for h in (loc.height.saturating_sub(5).max(base + 1))..=tip {
						let b = self.chain.block_at(h);
						let txdata: Vec<(usize, &Transaction)> = b.txs.iter().enumerate().map(|(i, t)| (i + 1, t)).collect();
						m.transactions_confirmed(&b.header, &txdata, b.height, &*node.bcast, &*node.fee, &*node.logger);
					}
					let b = self.chain.tip();
					m.best_block_updated(&b.header, b.height, &*node.bcast, &*node.fee, &*node.logger);
				}
			}
		}
	}

	// -----------------------------------------------------------------------------------------
	// quiescence
	// -----------------------------------------------------------------------------------------
	/// Reconnect everything, complete all persistence, and run every queue dry. Returns false if
	/// the step budget was exhausted (inconclusive, never a verdict).
	pub fn any_dead(&self) -> bool {
		self.nodes.iter().any(|n| n.persister.dead.load(Ordering::SeqCst))
	}
	pub fn settle(&mut self, budget: usize) -> bool {
		if self.any_dead() {
			return false; // a crashed node must be restarted first
		}
		let mut quiet_passes = 0;
		let n = self.nodes.len();
		for _pass in 0..budget {
			if self.any_dead() {
				return false; // a node died during this pass (armed crash): not a quiescent point
			}
			let mut did = 0usize;
			let pairs: Vec<(usize, usize)> = self.chans.iter().filter(|c| !c.closed).map(|c| lk(c.a, c.b).0).collect();
			for (a, b) in pairs {
				if !self.is_connected(a, b) {
					self.connect(a, b);
					did += 1;
				}
			}
			for i in 0..n {
				did += self.complete_all(i);
				let pend = self.nodes[i].mon.pending_operation_count();
				did += self.flush_deferred(i, pend);
			}
			did += self.deliver_all(10_000);
			for i in 0..n {
				did += self.process_events(i);
				if self.nodes[i].mgr.needs_pending_htlc_processing() {
					self.process_forwards(i);
					did += 1;
				}
				self.pump(i);
			}
			did += self.deliver_all(10_000);
			if did == 0 {
				quiet_passes += 1;
				if quiet_passes >= 2 {
					return !self.any_dead();
				}
			} else {
				quiet_passes = 0;
			}
		}
		false
	}
}

pub fn dummy_commit() -> CommitInfo {
	use bitcoin::hashes::Hash;
	CommitInfo { funding: None, num: 0, txid: Txid::all_zeros(), to_broadcaster_sat: 0, to_countersignatory_sat: 0, feerate: 0, nondust: vec![], out_sum: 0, n_outputs: 0, value_sat: 0, point: bitcoin::secp256k1::PublicKey::from_slice(&[2; 33]).unwrap(), tx: Transaction { version: Version(2), lock_time: LockTime::ZERO, input: vec![], output: vec![] } }
}

pub fn ev_name(e: &Event) -> String {
	match e {
		Event::PaymentClaimable { amount_msat, .. } => format!("PaymentClaimable amt={}", amount_msat),
		Event::PaymentClaimed { amount_msat, .. } => format!("PaymentClaimed amt={}", amount_msat),
		Event::PaymentSent { fee_paid_msat, payment_id, .. } => format!("PaymentSent fee={:?} id#{}", fee_paid_msat, payment_id.map(|i| i.0[0] as u64 + 256 * i.0[1] as u64).unwrap_or(0)),
		Event::PaymentFailed { reason, payment_id, .. } => format!("PaymentFailed {:?} id#{}", reason, payment_id.0[0] as u64 + 256 * payment_id.0[1] as u64),
		Event::PaymentPathFailed { short_channel_id, payment_failed_permanently, payment_id, .. } => format!("PaymentPathFailed scid={:?} permanent={} id#{}", short_channel_id, payment_failed_permanently, payment_id.map(|i| i.0[0] as u64 + 256 * i.0[1] as u64).unwrap_or(0)),
		Event::PaymentForwarded { total_fee_earned_msat, claim_from_onchain_tx, .. } => format!("PaymentForwarded fee={:?} onchain={}", total_fee_earned_msat, claim_from_onchain_tx),
		Event::ChannelClosed { reason, .. } => format!("ChannelClosed {:?}", reason),
		Event::HTLCHandlingFailed { failure_type, failure_reason, .. } => format!("HTLCHandlingFailed {:?} {:?}", failure_type, failure_reason),
		o => format!("{:?}", o).split([' ', '{', '(']).next().unwrap_or("").to_string(),
	}
}
