//! Taps at the library's public boundaries: channel signer, key provider, persister, chain::Watch
//! wrapper, broadcaster, fee estimator, logger, router. Every tap appends to one append-only event
//! log owned by the world (single scheduler thread, so the log order is the real order).
use bitcoin::secp256k1::{self, ecdsa::Signature, PublicKey, Secp256k1, SecretKey};
use bitcoin::{ScriptBuf, Transaction, TxOut, Txid};
use lightning::blinded_path::message::{BlindedMessagePath, MessageContext, MessageForwardNode};
use lightning::blinded_path::payment::{BlindedPaymentPath, ReceiveTlvs};
use lightning::chain::chaininterface::{BroadcasterInterface, ConfirmationTarget, FeeEstimator, TransactionType};
use lightning::chain::chainmonitor::{self, Persist};
use lightning::chain::channelmonitor::{ChannelMonitor, ChannelMonitorUpdate, MonitorEvent, VerifStep};
use lightning::chain::transaction::OutPoint;
use lightning::chain::{self, ChannelMonitorUpdateStatus};
use lightning::ln::chan_utils::*;
use lightning::ln::channel_state::ChannelDetails;
use lightning::ln::inbound_payment::ExpandedKey;
use lightning::ln::msgs;
use lightning::ln::script::ShutdownScript;
use lightning::ln::types::ChannelId;
use lightning::onion_message::messenger::{Destination, MessageRouter, OnionMessagePath};
use lightning::routing::router::{InFlightHtlcs, Route, RouteParameters, Router};
use lightning::sign::ecdsa::EcdsaChannelSigner;
use lightning::sign::{ChannelSigner, EntropySource, HTLCDescriptor, InMemorySigner, KeysManager, NodeSigner, PeerStorageKey, ReceiveAuthKey, Recipient, SignerProvider};
use lightning::types::payment::PaymentPreimage;
use lightning::util::logger::{Level, Logger, Record};
use lightning::util::persist::MonitorName;
use lightning::util::ser::Writeable;
use std::collections::{HashMap, VecDeque};
use std::sync::atomic::{AtomicBool, AtomicU32, AtomicU64, Ordering};
use std::sync::{Arc, Mutex};

// ---------------------------------------------------------------------------------------------
// Event log
// ---------------------------------------------------------------------------------------------
#[derive(Clone, Debug, PartialEq, Eq)]
pub struct HtlcInfo {
	pub offered: bool, // offered by the broadcaster of this commitment
	pub amount_msat: u64,
	pub hash: [u8; 32],
	pub cltv: u32,
}
#[derive(Clone, Debug)]
pub struct CommitInfo {
	pub funding: Option<Txid>,
	pub num: u64,
	pub txid: Txid,
	pub to_broadcaster_sat: u64,
	pub to_countersignatory_sat: u64,
	pub feerate: u32,
	pub nondust: Vec<HtlcInfo>,
	pub out_sum: u64,
	pub n_outputs: usize,
	pub value_sat: u64,
	pub point: PublicKey,
	pub tx: Transaction,
}
fn commit_info(tx: &CommitmentTransaction, value: u64, funding: Option<Txid>) -> CommitInfo {
	let built = &tx.trust().built_transaction().transaction;
	CommitInfo {
		funding,
		num: tx.commitment_number(),
		txid: tx.trust().txid(),
		to_broadcaster_sat: tx.to_broadcaster_value_sat(),
		to_countersignatory_sat: tx.to_countersignatory_value_sat(),
		feerate: tx.negotiated_feerate_per_kw(),
		nondust: tx.nondust_htlcs().iter().map(|h| HtlcInfo { offered: h.offered, amount_msat: h.amount_msat, hash: h.payment_hash.0, cltv: h.cltv_expiry }).collect(),
		out_sum: built.output.iter().map(|o| o.value.to_sat()).sum(),
		n_outputs: built.output.len(),
		value_sat: value,
		point: tx.per_commitment_point(),
		tx: built.clone(),
	}
}

#[derive(Clone, Debug)]
pub enum Ev {
	// ---- signer tap (keys = channel_keys_id) ----
	SignCounterparty { node: usize, keys: [u8; 32], c: CommitInfo },
	ValidateHolder { node: usize, keys: [u8; 32], c: CommitInfo },
	ReleaseSecret { node: usize, keys: [u8; 32], idx: u64 },
	ValidateRevocation { node: usize, keys: [u8; 32], idx: u64, secret: [u8; 32] },
	SignHolder { node: usize, keys: [u8; 32], num: u64, txid: Txid },
	UnsafeSignHolder { node: usize, keys: [u8; 32], num: u64 },
	SignHolderHtlc { node: usize, keys: [u8; 32], commitment_txid: Txid, num: u64 },
	SignJustice { node: usize, keys: [u8; 32] },
	SignClosing { node: usize, keys: [u8; 32], funding: Option<Txid>, value_sat: u64, to_holder_sat: u64, to_counterparty_sat: u64, holder_script: ScriptBuf, counterparty_script: ScriptBuf },
	// ---- watch / persist taps ----
	WatchNew { node: usize, chan: ChannelId, update_id: u64, status: String },
	WatchUpdate { node: usize, chan: ChannelId, update_id: u64, steps: Vec<VerifStep>, status: String, bytes: Vec<u8>, /// None: the update read back from its serialization equals the original
		roundtrip: Option<String> },
	PersistNew { node: usize, chan: ChannelId, update_id: u64, in_progress: bool },
	PersistUpdate { node: usize, chan: ChannelId, update_id: Option<u64>, latest: u64, in_progress: bool },
	Completed { node: usize, chan: ChannelId, update_id: u64 },
	Archive { node: usize },
	// ---- broadcaster ----
	Broadcast { node: usize, tx: Transaction, height: u32 },
	// ---- harness level ----
	Step { step: u64, desc: String },
}

#[derive(Default)]
pub struct EvLog {
	evs: Mutex<Vec<Ev>>,
	pub height: AtomicU32,
	pub trace: AtomicBool,
}
impl EvLog {
	pub fn push(&self, e: Ev) {
		if self.trace.load(Ordering::Relaxed) {
			eprintln!("      tap {}", short_ev(&e));
		}
		self.evs.lock().unwrap().push(e);
	}
	pub fn len(&self) -> usize {
		self.evs.lock().unwrap().len()
	}
	pub fn since(&self, idx: usize) -> Vec<Ev> {
		self.evs.lock().unwrap()[idx..].to_vec()
	}
	pub fn tail_text(&self, n: usize) -> Vec<String> {
		let g = self.evs.lock().unwrap();
		g.iter().rev().take(n).rev().map(short_ev).collect()
	}
	/// Drop old events to bound memory (monitors keep their own cursors relative to `base`).
	pub fn truncate_before(&self, idx: usize) {
		let mut g = self.evs.lock().unwrap();
		if idx <= g.len() {
			g.drain(..idx);
		}
	}
}
pub fn short_ev(e: &Ev) -> String {
	match e {
		Ev::SignCounterparty { node, c, .. } => format!("n{} SignCounterparty num={} to_b={} to_c={} htlcs={} feerate={}", node, c.num, c.to_broadcaster_sat, c.to_countersignatory_sat, c.nondust.len(), c.feerate),
		Ev::ValidateHolder { node, c, .. } => format!("n{} ValidateHolder num={} to_b={} to_c={} htlcs={}", node, c.num, c.to_broadcaster_sat, c.to_countersignatory_sat, c.nondust.len()),
		Ev::ReleaseSecret { node, idx, .. } => format!("n{} ReleaseSecret idx={}", node, idx),
		Ev::ValidateRevocation { node, idx, .. } => format!("n{} ValidateRevocation idx={}", node, idx),
		Ev::SignHolder { node, num, .. } => format!("n{} SignHolder num={}", node, num),
		Ev::UnsafeSignHolder { node, num, .. } => format!("n{} UnsafeSignHolder num={}", node, num),
		Ev::SignHolderHtlc { node, num, .. } => format!("n{} SignHolderHtlc num={}", node, num),
		Ev::SignJustice { node, .. } => format!("n{} SignJustice", node),
		Ev::SignClosing { node, to_holder_sat, to_counterparty_sat, .. } => format!("n{} SignClosing holder={} cp={}", node, to_holder_sat, to_counterparty_sat),
		Ev::WatchNew { node, chan, update_id, status } => format!("n{} WatchNew chan={} id={} {}", node, &chan.to_string()[..6], update_id, status),
		Ev::WatchUpdate { node, chan, update_id, steps, status, .. } => format!("n{} WatchUpdate chan={} id={} [{}] {}", node, &chan.to_string()[..6], update_id, steps.iter().map(step_name).collect::<Vec<_>>().join("+"), status),
		Ev::PersistNew { node, update_id, in_progress, .. } => format!("n{} PersistNew id={} in_progress={}", node, update_id, in_progress),
		Ev::PersistUpdate { node, chan, update_id, latest, in_progress } => format!("n{} PersistUpdate chan={} id={:?} latest={} in_progress={}", node, &chan.to_string()[..6], update_id, latest, in_progress),
		Ev::Completed { node, chan, update_id } => format!("n{} Completed chan={} id={}", node, &chan.to_string()[..6], update_id),
		Ev::Archive { node } => format!("n{} Archive", node),
		Ev::Broadcast { node, tx, height } => format!("n{} Broadcast {} ins={} outs={} h={}", node, tx.compute_txid(), tx.input.len(), tx.output.len(), height),
		Ev::Step { step, desc } => format!("STEP {} {}", step, desc),
	}
}
pub fn step_name(s: &VerifStep) -> String {
	match s {
		VerifStep::HolderCommitment { commitment_number, .. } => format!("HolderCommitment({})", commitment_number),
		VerifStep::CounterpartyCommitment { commitment_number, .. } => format!("CounterpartyCommitment({})", commitment_number),
		VerifStep::PaymentPreimage { .. } => "PaymentPreimage".into(),
		VerifStep::CommitmentSecret { idx, .. } => format!("CommitmentSecret({})", idx),
		VerifStep::ChannelForceClosed { should_broadcast } => format!("ChannelForceClosed({})", should_broadcast),
		VerifStep::Other(n) => n.to_string(),
	}
}

// ---------------------------------------------------------------------------------------------
// Signer tap
// ---------------------------------------------------------------------------------------------
pub struct TapSigner {
	pub inner: InMemorySigner,
	pub log: Arc<EvLog>,
	pub node: usize,
}
impl Clone for TapSigner {
	fn clone(&self) -> Self {
		TapSigner { inner: self.inner.clone(), log: self.log.clone(), node: self.node }
	}
}
impl PartialEq for TapSigner {
	fn eq(&self, o: &Self) -> bool {
		self.inner == o.inner
	}
}
impl TapSigner {
	fn k(&self) -> [u8; 32] {
		self.inner.channel_keys_id()
	}
}
impl ChannelSigner for TapSigner {
	fn get_per_commitment_point(&self, idx: u64, s: &Secp256k1<secp256k1::All>) -> Result<PublicKey, ()> {
		self.inner.get_per_commitment_point(idx, s)
	}
	fn release_commitment_secret(&self, idx: u64) -> Result<[u8; 32], ()> {
		self.log.push(Ev::ReleaseSecret { node: self.node, keys: self.k(), idx });
		self.inner.release_commitment_secret(idx)
	}
	fn validate_holder_commitment(&self, tx: &HolderCommitmentTransaction, p: Vec<PaymentPreimage>) -> Result<(), ()> {
		self.log.push(Ev::ValidateHolder { node: self.node, keys: self.k(), c: commit_info(tx, 0, None) });
		self.inner.validate_holder_commitment(tx, p)
	}
	fn validate_counterparty_revocation(&self, idx: u64, secret: &SecretKey) -> Result<(), ()> {
		self.log.push(Ev::ValidateRevocation { node: self.node, keys: self.k(), idx, secret: secret.secret_bytes() });
		self.inner.validate_counterparty_revocation(idx, secret)
	}
	fn pubkeys(&self, s: &Secp256k1<secp256k1::All>) -> ChannelPublicKeys {
		self.inner.pubkeys(s)
	}
	fn new_funding_pubkey(&self, t: Txid, s: &Secp256k1<secp256k1::All>) -> PublicKey {
		self.inner.new_funding_pubkey(t, s)
	}
	fn channel_keys_id(&self) -> [u8; 32] {
		self.inner.channel_keys_id()
	}
}
impl EcdsaChannelSigner for TapSigner {
	fn sign_counterparty_commitment(&self, cp: &ChannelTransactionParameters, tx: &CommitmentTransaction, a: Vec<PaymentPreimage>, b: Vec<PaymentPreimage>, s: &Secp256k1<secp256k1::All>) -> Result<(Signature, Vec<Signature>), ()> {
		self.log.push(Ev::SignCounterparty { node: self.node, keys: self.k(), c: commit_info(tx, cp.channel_value_satoshis, cp.funding_outpoint.map(|o| o.txid)) });
		self.inner.sign_counterparty_commitment(cp, tx, a, b, s)
	}
	fn sign_holder_commitment(&self, cp: &ChannelTransactionParameters, tx: &HolderCommitmentTransaction, s: &Secp256k1<secp256k1::All>) -> Result<Signature, ()> {
		self.log.push(Ev::SignHolder { node: self.node, keys: self.k(), num: tx.commitment_number(), txid: tx.trust().txid() });
		self.inner.sign_holder_commitment(cp, tx, s)
	}
	fn unsafe_sign_holder_commitment(&self, cp: &ChannelTransactionParameters, tx: &HolderCommitmentTransaction, s: &Secp256k1<secp256k1::All>) -> Result<Signature, ()> {
		self.log.push(Ev::UnsafeSignHolder { node: self.node, keys: self.k(), num: tx.commitment_number() });
		self.inner.unsafe_sign_holder_commitment(cp, tx, s)
	}
	fn sign_justice_revoked_output(&self, cp: &ChannelTransactionParameters, tx: &Transaction, i: usize, a: u64, k: &SecretKey, s: &Secp256k1<secp256k1::All>) -> Result<Signature, ()> {
		self.log.push(Ev::SignJustice { node: self.node, keys: self.k() });
		self.inner.sign_justice_revoked_output(cp, tx, i, a, k, s)
	}
	fn sign_justice_revoked_htlc(&self, cp: &ChannelTransactionParameters, tx: &Transaction, i: usize, a: u64, k: &SecretKey, h: &HTLCOutputInCommitment, s: &Secp256k1<secp256k1::All>) -> Result<Signature, ()> {
		self.log.push(Ev::SignJustice { node: self.node, keys: self.k() });
		self.inner.sign_justice_revoked_htlc(cp, tx, i, a, k, h, s)
	}
	fn sign_holder_htlc_transaction(&self, tx: &Transaction, i: usize, d: &HTLCDescriptor, s: &Secp256k1<secp256k1::All>) -> Result<Signature, ()> {
		self.log.push(Ev::SignHolderHtlc { node: self.node, keys: self.k(), commitment_txid: d.commitment_txid, num: d.per_commitment_number });
		self.inner.sign_holder_htlc_transaction(tx, i, d, s)
	}
	fn sign_counterparty_htlc_transaction(&self, cp: &ChannelTransactionParameters, tx: &Transaction, i: usize, a: u64, p: &PublicKey, h: &HTLCOutputInCommitment, s: &Secp256k1<secp256k1::All>) -> Result<Signature, ()> {
		self.inner.sign_counterparty_htlc_transaction(cp, tx, i, a, p, h, s)
	}
	fn sign_closing_transaction(&self, cp: &ChannelTransactionParameters, tx: &ClosingTransaction, s: &Secp256k1<secp256k1::All>) -> Result<Signature, ()> {
		self.log.push(Ev::SignClosing { node: self.node, keys: self.k(), funding: cp.funding_outpoint.map(|o| o.txid), value_sat: cp.channel_value_satoshis, to_holder_sat: tx.to_holder_value_sat(), to_counterparty_sat: tx.to_counterparty_value_sat(), holder_script: tx.to_holder_script().into(), counterparty_script: tx.to_counterparty_script().into() });
		self.inner.sign_closing_transaction(cp, tx, s)
	}
	fn sign_holder_keyed_anchor_input(&self, cp: &ChannelTransactionParameters, tx: &Transaction, i: usize, s: &Secp256k1<secp256k1::All>) -> Result<Signature, ()> {
		self.inner.sign_holder_keyed_anchor_input(cp, tx, i, s)
	}
	fn sign_channel_announcement_with_funding_key(&self, cp: &ChannelTransactionParameters, m: &msgs::UnsignedChannelAnnouncement, s: &Secp256k1<secp256k1::All>) -> Result<Signature, ()> {
		self.inner.sign_channel_announcement_with_funding_key(cp, m, s)
	}
	fn sign_splice_shared_input(&self, cp: &ChannelTransactionParameters, tx: &Transaction, i: usize, s: &Secp256k1<secp256k1::All>) -> Result<Signature, ()> {
		self.inner.sign_splice_shared_input(cp, tx, i, s)
	}
}

pub struct Keys {
	pub km: KeysManager,
	pub log: Arc<EvLog>,
	pub node: usize,
}
impl EntropySource for Keys {
	fn get_secure_random_bytes(&self) -> [u8; 32] {
		self.km.get_secure_random_bytes()
	}
}
impl NodeSigner for Keys {
	fn get_node_id(&self, r: Recipient) -> Result<PublicKey, ()> {
		self.km.get_node_id(r)
	}
	fn ecdh(&self, r: Recipient, k: &PublicKey, t: Option<&secp256k1::Scalar>) -> Result<secp256k1::ecdh::SharedSecret, ()> {
		self.km.ecdh(r, k, t)
	}
	fn get_expanded_key(&self) -> ExpandedKey {
		self.km.get_expanded_key()
	}
	fn sign_invoice(&self, i: &lightning::bolt11_invoice::RawBolt11Invoice, r: Recipient) -> Result<secp256k1::ecdsa::RecoverableSignature, ()> {
		self.km.sign_invoice(i, r)
	}
	fn get_peer_storage_key(&self) -> PeerStorageKey {
		self.km.get_peer_storage_key()
	}
	fn get_receive_auth_key(&self) -> ReceiveAuthKey {
		self.km.get_receive_auth_key()
	}
	fn sign_bolt12_invoice(&self, i: &lightning::offers::invoice::UnsignedBolt12Invoice) -> Result<secp256k1::schnorr::Signature, ()> {
		self.km.sign_bolt12_invoice(i)
	}
	fn sign_gossip_message(&self, m: msgs::UnsignedGossipMessage) -> Result<Signature, ()> {
		self.km.sign_gossip_message(m)
	}
	fn sign_message(&self, m: &[u8]) -> Result<String, ()> {
		self.km.sign_message(m)
	}
}
impl SignerProvider for Keys {
	type EcdsaSigner = TapSigner;
	fn generate_channel_keys_id(&self, i: bool, u: u128) -> [u8; 32] {
		self.km.generate_channel_keys_id(i, u)
	}
	fn derive_channel_signer(&self, id: [u8; 32]) -> TapSigner {
		TapSigner { inner: self.km.derive_channel_signer(id), log: self.log.clone(), node: self.node }
	}
	fn get_destination_script(&self, id: [u8; 32]) -> Result<ScriptBuf, ()> {
		self.km.get_destination_script(id)
	}
	fn get_shutdown_scriptpubkey(&self) -> Result<ShutdownScript, ()> {
		self.km.get_shutdown_scriptpubkey()
	}
}

// ---------------------------------------------------------------------------------------------
// Fee estimator, broadcaster, logger, router
// ---------------------------------------------------------------------------------------------
pub struct Fee(pub AtomicU32);
impl FeeEstimator for Fee {
	fn get_est_sat_per_1000_weight(&self, t: ConfirmationTarget) -> u32 {
		let base = self.0.load(Ordering::SeqCst);
		match t {
			ConfirmationTarget::MinAllowedAnchorChannelRemoteFee | ConfirmationTarget::MinAllowedNonAnchorChannelRemoteFee => 253,
			ConfirmationTarget::MaximumFeeEstimate => base.saturating_mul(20).max(50_000),
			ConfirmationTarget::UrgentOnChainSweep => base.saturating_mul(2),
			_ => base,
		}
	}
}
pub struct Bcast {
	pub log: Arc<EvLog>,
	pub node: usize,
	pub queue: Mutex<Vec<Transaction>>,
	pub dead: AtomicBool,
}
impl BroadcasterInterface for Bcast {
	fn broadcast_transactions(&self, txs: &[(&Transaction, TransactionType)]) {
		if self.dead.load(Ordering::SeqCst) {
			return;
		}
		for (t, _) in txs {
			self.log.push(Ev::Broadcast { node: self.node, tx: (*t).clone(), height: self.log.height.load(Ordering::SeqCst) });
			self.queue.lock().unwrap().push((*t).clone());
		}
	}
}
pub struct RingLogger {
	pub node: usize,
	pub ring: Mutex<VecDeque<String>>,
	pub print: AtomicBool,
}
impl RingLogger {
	pub fn new(node: usize) -> RingLogger {
		RingLogger { node, ring: Mutex::new(VecDeque::new()), print: AtomicBool::new(std::env::var("VERIF_LDK_LOG").is_ok()) }
	}
	pub fn tail(&self) -> Vec<String> {
		self.ring.lock().unwrap().iter().cloned().collect()
	}
}
impl Logger for RingLogger {
	fn log(&self, r: Record) {
		if r.level < Level::Debug {
			return;
		}
		let line = format!("n{} LDK[{}] {}:{} {}", self.node, r.level, r.module_path.rsplit("::").next().unwrap_or(""), r.line, r.args);
		if self.print.load(Ordering::Relaxed) {
			eprintln!("        {}", line);
		}
		let mut g = self.ring.lock().unwrap();
		if g.len() >= 60 {
			g.pop_front();
		}
		g.push_back(line);
	}
}
/// The harness passes complete routes. Sends that go through the router (spontaneous payments) find the route the
/// harness left here right before the call; otherwise the router knows none (so nothing is ever retried over a
/// route the harness did not choose).
#[derive(Default)]
pub struct NoRouter {
	pub scripted: Mutex<VecDeque<Route>>,
}
impl Router for NoRouter {
	fn find_route(&self, _: &PublicKey, _: &RouteParameters, _: Option<&[&ChannelDetails]>, _: InFlightHtlcs) -> Result<Route, &'static str> {
		self.scripted.lock().unwrap().pop_front().ok_or("scripted routes only")
	}
	fn create_blinded_payment_paths<T: secp256k1::Signing + secp256k1::Verification>(&self, _: PublicKey, _: ReceiveAuthKey, _: Vec<ChannelDetails>, _: ReceiveTlvs, _: Option<u64>, _: &Secp256k1<T>) -> Result<Vec<BlindedPaymentPath>, ()> {
		Err(())
	}
}
impl MessageRouter for NoRouter {
	fn find_path(&self, _: PublicKey, _: Vec<PublicKey>, _: Destination) -> Result<OnionMessagePath, ()> {
		Err(())
	}
	fn create_blinded_paths<T: secp256k1::Signing + secp256k1::Verification>(&self, _: PublicKey, _: ReceiveAuthKey, _: MessageContext, _: Vec<MessageForwardNode>, _: &Secp256k1<T>) -> Result<Vec<BlindedMessagePath>, ()> {
		Err(())
	}
}

// ---------------------------------------------------------------------------------------------
// Persister with a model of the disk
// ---------------------------------------------------------------------------------------------
#[derive(Clone, Debug)]
pub struct Write {
	pub chan: ChannelId,
	/// update id this write makes durable (the monitor's latest_update_id at the time of the call)
	pub latest: u64,
	/// Some(id) when the call carried a ChannelMonitorUpdate
	pub update_id: Option<u64>,
	pub bytes: Vec<u8>,
	pub seq: u64,
}
#[derive(Default)]
pub struct Disk {
	/// last write reported complete, per channel
	pub durable: HashMap<ChannelId, Write>,
	/// writes that returned InProgress and were not completed yet, oldest first
	pub inflight: Vec<Write>,
	pub archived: Vec<ChannelId>,
}
pub struct Persister {
	pub log: Arc<EvLog>,
	pub node: usize,
	pub async_mode: AtomicBool,
	pub disk: Mutex<Disk>,
	pub seq: AtomicU64,
	pub writes: AtomicU64,
	/// virtual crash: once armed and the counter reaches zero the node is dead; later writes are lost
	pub crash_after: Mutex<Option<u64>>,
	pub dead: AtomicBool,
	/// a real MonitorUpdatingPersister over a recording store that is given the same calls (C19)
	pub shadow: Mutex<Option<Arc<crate::mupshadow::MupShadow>>>,
}
impl Persister {
	pub fn new(log: Arc<EvLog>, node: usize) -> Persister {
		Persister { log, node, async_mode: AtomicBool::new(false), disk: Mutex::new(Disk::default()), seq: AtomicU64::new(0), writes: AtomicU64::new(0), crash_after: Mutex::new(None), dead: AtomicBool::new(false), shadow: Mutex::new(None) }
	}
	fn record(&self, chan: ChannelId, update_id: Option<u64>, m: &ChannelMonitor<TapSigner>) -> ChannelMonitorUpdateStatus {
		if self.dead.load(Ordering::SeqCst) {
			// the process is "dead": nothing reaches the disk any more; the answer is irrelevant
			return ChannelMonitorUpdateStatus::InProgress;
		}
		self.writes.fetch_add(1, Ordering::SeqCst);
		let w = Write { chan, latest: m.get_latest_update_id(), update_id, bytes: m.encode(), seq: self.seq.fetch_add(1, Ordering::SeqCst) };
		let in_progress = self.async_mode.load(Ordering::SeqCst);
		let mut d = self.disk.lock().unwrap();
		if in_progress {
			d.inflight.push(w);
		} else {
			d.durable.insert(chan, w);
		}
		drop(d);
		let mut c = self.crash_after.lock().unwrap();
		if let Some(n) = c.as_mut() {
			if *n == 0 {
				self.dead.store(true, Ordering::SeqCst);
			} else {
				*n -= 1;
			}
		}
		if in_progress {
			ChannelMonitorUpdateStatus::InProgress
		} else {
			ChannelMonitorUpdateStatus::Completed
		}
	}
	/// Pending (chan, update id) pairs in issue order – only those that carried an update or were initial persists.
	pub fn pending(&self) -> Vec<(ChannelId, u64)> {
		self.disk.lock().unwrap().inflight.iter().map(|w| (w.chan, w.latest)).collect()
	}
	/// Mark in-flight write `k` complete on the model disk. Returns (chan, latest id).
	pub fn complete(&self, k: usize) -> Option<(ChannelId, u64)> {
		let mut d = self.disk.lock().unwrap();
		if k >= d.inflight.len() {
			return None;
		}
		let w = d.inflight.remove(k);
		let r = (w.chan, w.latest);
		let newer = d.durable.get(&w.chan).map(|o| o.seq < w.seq).unwrap_or(true);
		if newer {
			d.durable.insert(w.chan, w);
		}
		Some(r)
	}
}
impl Persist<TapSigner> for Persister {
	fn persist_new_channel(&self, _n: MonitorName, m: &ChannelMonitor<TapSigner>) -> ChannelMonitorUpdateStatus {
		if self.dead.load(Ordering::SeqCst) {
			return ChannelMonitorUpdateStatus::InProgress;
		}
		if let Some(sh) = self.shadow.lock().unwrap().as_ref() {
			sh.persist_new(_n, m);
		}
		let st = self.record(m.channel_id(), None, m);
		self.log.push(Ev::PersistNew { node: self.node, chan: m.channel_id(), update_id: m.get_latest_update_id(), in_progress: st == ChannelMonitorUpdateStatus::InProgress });
		st
	}
	fn update_persisted_channel(&self, _n: MonitorName, u: Option<&ChannelMonitorUpdate>, m: &ChannelMonitor<TapSigner>) -> ChannelMonitorUpdateStatus {
		if self.dead.load(Ordering::SeqCst) {
			return ChannelMonitorUpdateStatus::InProgress;
		}
		if let Some(sh) = self.shadow.lock().unwrap().as_ref() {
			sh.update(_n, u, m);
		}
		let st = self.record(m.channel_id(), u.map(|u| u.update_id), m);
		self.log.push(Ev::PersistUpdate { node: self.node, chan: m.channel_id(), update_id: u.map(|u| u.update_id), latest: m.get_latest_update_id(), in_progress: st == ChannelMonitorUpdateStatus::InProgress });
		st
	}
	fn archive_persisted_channel(&self, _n: MonitorName) {
		self.log.push(Ev::Archive { node: self.node });
	}
}

// ---------------------------------------------------------------------------------------------
// chain::Watch wrapper handed to the ChannelManager
// ---------------------------------------------------------------------------------------------
pub type ChainMon = chainmonitor::ChainMonitor<TapSigner, Arc<dyn chain::Filter + Send + Sync>, Arc<Bcast>, Arc<Fee>, Arc<RingLogger>, Arc<Persister>, Arc<Keys>>;
pub struct WatchTap {
	pub inner: Arc<ChainMon>,
	pub log: Arc<EvLog>,
	pub node: usize,
}
impl chain::Watch<TapSigner> for WatchTap {
	fn watch_channel(&self, channel_id: ChannelId, monitor: ChannelMonitor<TapSigner>) -> Result<ChannelMonitorUpdateStatus, ()> {
		let id = monitor.get_latest_update_id();
		let r = self.inner.watch_channel(channel_id, monitor);
		self.log.push(Ev::WatchNew { node: self.node, chan: channel_id, update_id: id, status: format!("{:?}", r) });
		r
	}
	fn update_channel(&self, channel_id: ChannelId, update: &ChannelMonitorUpdate) -> ChannelMonitorUpdateStatus {
		let steps = update.verif_steps();
		let bytes = update.encode();
		let roundtrip = match <ChannelMonitorUpdate as lightning::util::ser::Readable>::read(&mut &bytes[..]) {
			Ok(u) if u == *update => None,
			Ok(_) => Some("reads back as a different update".to_string()),
			Err(e) => Some(format!("does not read back: {:?}", e)),
		};
		let r = self.inner.update_channel(channel_id, update);
		self.log.push(Ev::WatchUpdate { node: self.node, chan: channel_id, update_id: update.update_id, steps, status: format!("{:?}", r), bytes, roundtrip });
		r
	}
	fn release_pending_monitor_events(&self) -> Vec<(OutPoint, ChannelId, Vec<MonitorEvent>, PublicKey)> {
		self.inner.release_pending_monitor_events()
	}
}

pub fn txout_sum(outs: &[TxOut]) -> u64 {
	outs.iter().map(|o| o.value.to_sat()).sum()
}
