//! Forks while a channel's funding transaction is young (C11): the opening of the first channel pauses
//! with the funding transaction in the mempool; the two peers are apart while the chain is mined and
//! reorganised around that transaction (it confirms, leaves the chain with its block, confirms again at
//! the same or another height), so that everything either node concludes comes from chain data alone.
//!   E1  copies of both nodes that are told the same blocks and forks in other delivery styles reach the
//!       same conclusions at every common tip (`chainequiv`: channel list with confirmation counts,
//!       transactions watched for reorganisation, balances, conclusive events)
//!   E4  after every block, the number of confirmations a node reports for the channel's funding
//!       transaction is the number that transaction has on the chain the node has been told
//! Afterwards the peers reconnect and the opening completes; the rest of the run goes on as usual.
use crate::run::Sim;
use vcore::{Report, Rng};

fn events_all(sim: &mut Sim, rep: &mut Report) {
	for k in 0..sim.w.nodes.len() {
		sim.w.process_events(k);
	}
	sim.dispatch(rep);
}

fn judge_confirmations(sim: &mut Sim, rep: &mut Report, idx: usize, when: &str) {
	let ftxid = match sim.w.chans[idx].funding_txid() {
		Some(t) => t,
		None => return,
	};
	let cid = sim.w.chans[idx].chan_id();
	let on_chain = sim.w.chain.confirmations(&ftxid);
	for n in [sim.w.chans[idx].a, sim.w.chans[idx].b] {
		let told = sim.w.nodes[n].mgr.list_channels().into_iter().find(|c| c.channel_id == cid).map(|c| c.confirmations);
		rep.count("c11_e4_funding_confirmations_checked");
		match told {
			Some(c) if c.unwrap_or(0) == on_chain => {},
			Some(c) => {
				sim.raised.push(("C11".into(), "E4-funding-confirmations".into(), "the confirmations a node reports for a channel's funding transaction differ from those it has on the chain the node was told".into(), format!("node{} chan {} {}: reports {:?}, the funding transaction {} has {} confirmations at tip {}", n, idx, when, c, ftxid, on_chain, sim.w.chain.height())));
			},
			None => {
				sim.raised.push(("C11".into(), "E4-funding-confirmations".into(), "a funded channel vanished from the channel list while its funding transaction was reorganised".into(), format!("node{} chan {} {}", n, idx, when)));
			},
		}
	}
}

pub fn phase(sim: &mut Sim, rng: &mut Rng, rep: &mut Report, idx: usize) -> Result<(), String> {
	let (a, b) = (sim.w.chans[idx].a, sim.w.chans[idx].b);
	let ftxid = match sim.w.chans[idx].funding_txid() {
		Some(t) => t,
		None => return Err("open_forks: no funding transaction".into()),
	};
	rep.count("openfork_scenarios");
	sim.w.note(format!("OPENFORK node{} and node{} are apart while the funding transaction {} confirms", a, b, ftxid));
	sim.w.disconnect(a, b);
	events_all(sim, rep);
	let mut copies = if sim.w.chain_equiv {
		sim.w.event_log.clear();
		crate::chainequiv::make_copies(sim, rng, rep)
	} else {
		vec![]
	};
	let start = sim.w.chain.height();
	let saved_delay = sim.w.miner_delay_max;
	sim.w.miner_delay_max = *rng.pick(&[0u32, 0, 1, 3]);
	let mut forks = 0u32;
	let max_forks = 1 + rng.below(4) as u32;
	let empty: std::collections::HashSet<bitcoin::Txid> = Default::default();
	for _ in 0..80 {
		let tip = sim.w.chain.height();
		// (no block that ever had six confirmations leaves the chain)
		let floor = start.max(sim.w.peak_height.saturating_sub(5));
		let conf_h = sim.w.chain.confirmed_at.get(&ftxid).cloned();
		let young = conf_h.map(|h| h > floor).unwrap_or(false);
		if forks < max_forks && tip > floor && rng.chance(1, if young { 2 } else { 6 }) {
			let mut d = (1 + rng.below(5) as u32).min(tip - floor);
			// most forks take the funding transaction's block with them
			if let Some(h) = conf_h {
				if h > floor && rng.chance(2, 3) {
					d = d.max(tip + 1 - h).min(tip - floor);
				}
			}
			let takes_funding = conf_h.map(|h| h > tip - d).unwrap_or(false);
			// a fork that takes the funding transaction away after it had the depth the peers agreed on for
			// channel_ready is a fault the library answers by closing the channel (half of those are avoided)
			let min_depth = sim.w.chans[idx].accept.as_ref().map(|m| m.common_fields.minimum_depth).unwrap_or(1).max(1);
			// (what counts is the highest tip the nodes have seen on top of this confirmation)
			let locked_in = takes_funding && conf_h.map(|h| sim.w.peak_height.max(tip) + 1 - h >= min_depth).unwrap_or(false);
			if locked_in && rng.chance(1, 2) {
				continue;
			}
			if locked_in {
				// (from here on the copies are not compared any more: whether a node had seen the agreed depth is a matter of
				// the tips it was told, which the delivery styles legitimately differ in)
				copies.clear();
				sim.w.chans[idx].fault = Some("funding transaction reorganised out after lock-in".into());
				rep.count("openfork_reorgs_unconfirming_the_funding_transaction_after_lock_in");
			}
			let announce = rng.chance(1, 2);
			// the transaction may take another while to be mined again (or go straight into the next block)
			sim.w.miner_release.remove(&ftxid);
			sim.w.note(format!("OPENFORK reorg: {} blocks leave the chain (funding transaction unconfirmed: {}, fork tip announced: {})", d, takes_funding, announce));
			let gone = sim.w.reorg(d, &empty, announce);
			forks += 1;
			rep.count("openfork_reorgs");
			if takes_funding {
				rep.count("openfork_reorgs_unconfirming_the_funding_transaction");
			}
			events_all(sim, rep);
			if !copies.is_empty() {
				crate::chainequiv::on_reorg(sim, &mut copies, &gone, rng, rep);
			}
			if !sim.raised.is_empty() {
				return Ok(());
			}
		}
		let before = sim.w.chain.confirmed_at.get(&ftxid).cloned();
		// copies that replay shallow forks of their own leave a locked-in funding transaction alone
		{
			let min_depth = sim.w.chans[idx].accept.as_ref().map(|m| m.common_fields.minimum_depth).unwrap_or(1).max(1);
			sim.w.copy_reorg_floor = match before {
				// (the block about to be mined counts: the copies are told of it before they replay anything)
				Some(h) if sim.w.peak_height.max(sim.w.chain.height() + 1) + 1 - h >= min_depth => h,
				_ => 0,
			};
		}
		sim.w.mine(1);
		events_all(sim, rep);
		if let (Some(h0), Some(h1)) = (conf_h.or(before), sim.w.chain.confirmed_at.get(&ftxid).cloned()) {
			if before.is_none() && h0 != h1 {
				rep.count("openfork_funding_confirmed_again_at_another_height");
			}
		}
		if !copies.is_empty() {
			crate::chainequiv::on_block(sim, &mut copies, rng, rep);
		}
		if sim.w.chans[idx].fault.is_none() {
			judge_confirmations(sim, rep, idx, "after a block");
		}
		if !sim.raised.is_empty() {
			return Ok(());
		}
		let tip = sim.w.chain.height();
		if sim.w.chain.confirmations(&ftxid) >= 8 && tip >= sim.w.peak_height && (forks >= max_forks || rng.chance(1, 3)) {
			break;
		}
	}
	while sim.w.chain.height() < sim.w.peak_height || sim.w.chain.confirmations(&ftxid) < 8 {
		sim.w.mine(1);
		events_all(sim, rep);
		if !copies.is_empty() {
			crate::chainequiv::on_block(sim, &mut copies, rng, rep);
		}
	}
	drop(copies);
	sim.w.copy_reorg_floor = 0;
	if sim.w.chans[idx].fault.is_some() {
		// (closed by the library, as documented, or about to be; nothing more to open)
		rep.count("openfork_channels_closed_by_a_fork_after_lock_in");
		let cid = sim.w.chans[idx].chan_id();
		let gone = [a, b].iter().filter(|n| !sim.w.nodes[**n].mgr.list_channels().iter().any(|c| c.channel_id == cid)).count();
		if gone > 0 {
			// the property says a fork shallower than the anti-reorg depth fully retracts what it removes
			sim.raised.push(("C11".into(), "E3-funding-fork-after-lock-in".into(), "a fork shallower than the anti-reorg depth that removes a channel's funding transaction after the depth agreed for channel_ready closes the channel for good".into(), format!("chan {}: closed at {} of 2 nodes; the funding transaction {} has {} confirmations on the final chain", idx, gone, ftxid, sim.w.chain.confirmations(&ftxid))));
		}
		sim.w.miner_delay_max = saved_delay;
		sim.w.miner_release.clear();
		sim.w.connect(a, b);
		events_all(sim, rep);
		return Ok(());
	}
	judge_confirmations(sim, rep, idx, "when the chain has settled");
	sim.w.miner_delay_max = saved_delay;
	sim.w.miner_release.clear();
	sim.w.note(format!("OPENFORK node{} and node{} reconnect", a, b));
	sim.w.connect(a, b);
	match sim.w.finish_open(idx) {
		Ok(_) => {
			rep.count("openfork_channels_usable_afterwards");
			Ok(())
		},
		Err(e) => Err(e),
	}
}
