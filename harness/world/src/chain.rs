//! Harness block chain + mempool + the chain-validity oracle (DESIGN.md §5.2).
//!
//! The chain is a stack of blocks (reorgs pop and push); every transaction relayed by a node is
//! checked in full context before it enters the mempool: known prevouts, consensus script
//! verification (bitcoinconsensus), nLockTime / BIP-68 finality for the next block, no money
//! creation. Conflicts with already confirmed spends are legitimate races and only recorded.
use bitcoin::block::{Header, Version as BlockVersion};
use bitcoin::hashes::Hash;
use bitcoin::{Amount, BlockHash, CompactTarget, Network, OutPoint, ScriptBuf, Transaction, TxMerkleNode, TxOut, Txid};
use std::collections::{HashMap, HashSet};

#[derive(Clone, Debug)]
pub struct Block {
	pub header: Header,
	pub height: u32,
	pub txs: Vec<Transaction>,
}

#[derive(Clone, Debug, PartialEq, Eq)]
pub enum TxVerdict {
	Valid,
	/// spends an output that a confirmed transaction already spent (lost a race) – legitimate
	Conflict,
	/// all inputs known, but a parent is still unconfirmed in the mempool
	ValidChild,
	Invalid(String),
}

pub struct Chain {
	/// blocks[i] is at height BASE_HEIGHT + i
	pub blocks: Vec<Block>,
	/// every output ever created on any branch: outpoint -> txout
	pub all_outputs: HashMap<OutPoint, TxOut>,
	/// unspent outputs on the active chain: outpoint -> (txout, height confirmed)
	pub utxos: HashMap<OutPoint, (TxOut, u32)>,
	/// spent on the active chain: outpoint -> (spending txid, height)
	pub spent: HashMap<OutPoint, (Txid, u32)>,
	pub mempool: Vec<Transaction>,
	pub seen: HashSet<Txid>,
	pub confirmed_at: HashMap<Txid, u32>,
	pub fees_paid: u64,
	pub stats_validated: u64,
	pub stats_conflicts: u64,
	/// mempool policy: a transaction replaces conflicting mempool transactions only if it pays a higher
	/// feerate than each of them (set together with the miner's fee policy; otherwise the last one relayed wins)
	pub replace_by_fee: bool,
	/// transactions that replace whatever they conflict with (the cheater's own, which nobody bumps)
	pub replace_exempt: HashSet<Txid>,
	pub stats_replacements_refused: u64,
	nonce: u32,
}

/// The harness chain starts at a height comparable to a real chain's: the library derives fake
/// short channel ids (aliases, intercept scids) from the range of heights it has seen and asserts
/// that they never collide, which presumes far more than a handful of blocks.
pub const BASE_HEIGHT: u32 = 800_000;

impl Chain {
	pub fn new() -> Chain {
		let genesis = bitcoin::constants::genesis_block(Network::Regtest);
		let mut c = Chain { blocks: vec![], all_outputs: HashMap::new(), utxos: HashMap::new(), spent: HashMap::new(), mempool: vec![], seen: HashSet::new(), confirmed_at: HashMap::new(), fees_paid: 0, stats_validated: 0, stats_conflicts: 0, replace_by_fee: false, replace_exempt: HashSet::new(), stats_replacements_refused: 0, nonce: 0 };
		c.blocks.push(Block { header: genesis.header, height: BASE_HEIGHT, txs: vec![] });
		c
	}
	pub fn height(&self) -> u32 {
		BASE_HEIGHT + self.blocks.len() as u32 - 1
	}
	pub fn block_at(&self, height: u32) -> &Block {
		&self.blocks[(height - BASE_HEIGHT) as usize]
	}
	pub fn tip(&self) -> &Block {
		self.blocks.last().unwrap()
	}
	pub fn tip_hash(&self) -> BlockHash {
		self.tip().header.block_hash()
	}
	/// Register outputs of a transaction the harness itself creates (funding, wallet coins); it is
	/// put in the mempool without validation of its (absent) inputs.
	pub fn inject(&mut self, tx: Transaction) {
		let txid = tx.compute_txid();
		for (k, o) in tx.output.iter().enumerate() {
			self.all_outputs.insert(OutPoint { txid, vout: k as u32 }, o.clone());
		}
		if self.seen.insert(txid) {
			self.mempool.push(tx);
		}
	}
	/// The oracle: validate a relayed transaction in the context of the active chain + mempool.
	pub fn validate(&self, tx: &Transaction) -> TxVerdict {
		let txid = tx.compute_txid();
		if tx.input.is_empty() || tx.output.is_empty() {
			return TxVerdict::Invalid(format!("{}: no inputs or no outputs", txid));
		}
		for inp in tx.input.iter() {
			if !self.all_outputs.contains_key(&inp.previous_output) {
				return TxVerdict::Invalid(format!("{}: spends unknown outpoint {}", txid, inp.previous_output));
			}
		}
		if let Err(e) = tx.verify(|op| self.all_outputs.get(op).cloned()) {
			return TxVerdict::Invalid(format!("{}: script verification failed: {:?}", txid, e));
		}
		let inv: u64 = tx.input.iter().map(|i| self.all_outputs[&i.previous_output].value.to_sat()).sum();
		let outv: u64 = tx.output.iter().map(|o| o.value.to_sat()).sum();
		if outv > inv {
			return TxVerdict::Invalid(format!("{}: outputs {} exceed inputs {}", txid, outv, inv));
		}
		// finality for inclusion in the next block
		let next_h = self.height() + 1;
		let lt = tx.lock_time.to_consensus_u32();
		let lt_enabled = tx.input.iter().any(|i| i.sequence.enables_absolute_lock_time());
		if lt_enabled && tx.lock_time.is_block_height() && lt >= next_h {
			return TxVerdict::Invalid(format!("{}: nLockTime {} not final at height {}", txid, lt, self.height()));
		}
		let mut conflict = false;
		let mut child = false;
		for inp in tx.input.iter() {
			match self.utxos.get(&inp.previous_output) {
				Some((_, conf_h)) => {
					if tx.version.0 >= 2 {
						if let Some(bitcoin::relative::LockTime::Blocks(b)) = inp.sequence.to_relative_lock_time() {
							if next_h < conf_h + b.value() as u32 {
								return TxVerdict::Invalid(format!("{}: BIP68 needs {} blocks on input confirmed at {}, next height {}", txid, b.value(), conf_h, next_h));
							}
						}
					}
				},
				None => {
					if self.spent.contains_key(&inp.previous_output) {
						conflict = true;
					} else {
						// parent not confirmed: must be in the mempool, and then no relative lock may be pending
						if tx.version.0 >= 2 {
							if let Some(bitcoin::relative::LockTime::Blocks(b)) = inp.sequence.to_relative_lock_time() {
								if b.value() > 0 {
									return TxVerdict::Invalid(format!("{}: CSV {} on an unconfirmed parent", txid, b.value()));
								}
							}
						}
						child = true;
					}
				},
			}
		}
		if conflict {
			TxVerdict::Conflict
		} else if child {
			TxVerdict::ValidChild
		} else {
			TxVerdict::Valid
		}
	}
	/// Relay: validate and, when acceptable, add to the mempool. Returns the verdict.
	pub fn relay(&mut self, tx: &Transaction) -> TxVerdict {
		let txid = tx.compute_txid();
		if self.seen.contains(&txid) && (self.confirmed_at.contains_key(&txid) || self.mempool.iter().any(|t| t.compute_txid() == txid)) {
			return TxVerdict::Valid;
		}
		// (a transaction seen before but evicted from the mempool by a conflicting relay is a new relay)
		let v = self.validate(tx);
		self.stats_validated += 1;
		match v {
			TxVerdict::Valid | TxVerdict::ValidChild => {
				self.seen.insert(txid);
				for (k, o) in tx.output.iter().enumerate() {
					self.all_outputs.insert(OutPoint { txid, vout: k as u32 }, o.clone());
				}
				// replace mempool transactions spending the same inputs (last relayed wins, or – under a fee
				// policy – only a transaction paying a higher feerate than everything it would replace)
				let ins: HashSet<OutPoint> = tx.input.iter().map(|i| i.previous_output).collect();
				if self.replace_by_fee && !self.replace_exempt.contains(&txid) {
					let rate = |t: &Transaction, all: &HashMap<OutPoint, TxOut>| -> u64 {
						let inv: u64 = t.input.iter().map(|i| all.get(&i.previous_output).map(|o| o.value.to_sat()).unwrap_or(0)).sum();
						let outv: u64 = t.output.iter().map(|o| o.value.to_sat()).sum();
						inv.saturating_sub(outv) * 1_000_000 / t.weight().to_wu().max(1)
					};
					let mine = rate(tx, &self.all_outputs);
					let best_rival = self.mempool.iter().filter(|m| m.input.iter().any(|i| ins.contains(&i.previous_output))).map(|m| rate(m, &self.all_outputs)).max();
					if let Some(r) = best_rival {
						if mine <= r {
							self.stats_replacements_refused += 1;
							return v;
						}
					}
				}
				self.mempool.retain(|m| !m.input.iter().any(|i| ins.contains(&i.previous_output)));
				self.mempool.push(tx.clone());
			},
			TxVerdict::Conflict => {
				self.stats_conflicts += 1;
				self.seen.insert(txid);
				for (k, o) in tx.output.iter().enumerate() {
					self.all_outputs.insert(OutPoint { txid, vout: k as u32 }, o.clone());
				}
			},
			TxVerdict::Invalid(_) => {},
		}
		v
	}
	/// Mine one block containing the mempool transactions selected by `pick` (in mempool order,
	/// parents before children). Returns the new block.
	pub fn mine(&mut self, mut pick: impl FnMut(&Transaction) -> bool) -> Block {
		let height = self.height() + 1;
		let mut block_txs: Vec<Transaction> = vec![];
		let mut keep = vec![];
		let pool = std::mem::take(&mut self.mempool);
		for tx in pool {
			let spendable = tx.input.iter().all(|i| self.utxos.contains_key(&i.previous_output)) || tx.input.is_empty();
			if spendable && pick(&tx) {
				let txid = tx.compute_txid();
				if !tx.input.is_empty() {
					let inv: u64 = tx.input.iter().map(|i| self.utxos[&i.previous_output].0.value.to_sat()).sum();
					let outv: u64 = tx.output.iter().map(|o| o.value.to_sat()).sum();
					self.fees_paid += inv.saturating_sub(outv);
				}
				for i in tx.input.iter() {
					self.utxos.remove(&i.previous_output);
					self.spent.insert(i.previous_output, (txid, height));
				}
				for (k, o) in tx.output.iter().enumerate() {
					self.utxos.insert(OutPoint { txid, vout: k as u32 }, (o.clone(), height));
				}
				self.confirmed_at.insert(txid, height);
				block_txs.push(tx);
			} else {
				// drop transactions that lost a race against a confirmed spend
				let lost = tx.input.iter().any(|i| self.spent.contains_key(&i.previous_output));
				if lost {
					self.stats_conflicts += 1;
				} else {
					keep.push(tx);
				}
			}
		}
		self.mempool = keep;
		self.nonce += 1;
		let header = Header { version: BlockVersion::NO_SOFT_FORK_SIGNALLING, prev_blockhash: self.tip_hash(), merkle_root: TxMerkleNode::all_zeros(), time: 1_700_000_000 + (height - BASE_HEIGHT) * 600 + (self.nonce % 500), bits: CompactTarget::from_consensus(0x207fffff), nonce: self.nonce };
		let b = Block { header, height, txs: block_txs };
		self.blocks.push(b.clone());
		b
	}
	/// Disconnect the tip block: its transactions return to the mempool, spends are undone.
	pub fn disconnect_tip(&mut self) -> Block {
		assert!(self.blocks.len() > 1, "cannot disconnect the first block");
		let b = self.blocks.pop().unwrap();
		for tx in b.txs.iter().rev() {
			let txid = tx.compute_txid();
			for (k, _) in tx.output.iter().enumerate() {
				self.utxos.remove(&OutPoint { txid, vout: k as u32 });
			}
			for i in tx.input.iter() {
				if let Some((spender, _)) = self.spent.get(&i.previous_output) {
					if *spender == txid {
						self.spent.remove(&i.previous_output);
						let o = self.all_outputs[&i.previous_output].clone();
						let h = self.confirmed_at.get(&i.previous_output.txid).cloned().unwrap_or(0);
						self.utxos.insert(i.previous_output, (o, h));
					}
				}
			}
			self.confirmed_at.remove(&txid);
			self.mempool.insert(0, tx.clone());
		}
		b
	}
	/// After blocks were disconnected: drop the given transactions from the mempool, then everything that is
	/// no longer valid for the next block (locks that are pending again) and everything that has lost a parent.
	/// Returns the txids dropped.
	pub fn revalidate_mempool(&mut self, drop: &HashSet<Txid>) -> Vec<Txid> {
		let pool = std::mem::take(&mut self.mempool);
		let mut kept: Vec<Transaction> = vec![];
		let mut kept_ids: HashSet<Txid> = HashSet::new();
		let mut dropped = vec![];
		for tx in pool {
			let txid = tx.compute_txid();
			let parents_ok = tx.input.iter().all(|i| self.utxos.contains_key(&i.previous_output) || kept_ids.contains(&i.previous_output.txid));
			let ok = !drop.contains(&txid) && (tx.input.is_empty() || (parents_ok && matches!(self.validate(&tx), TxVerdict::Valid | TxVerdict::ValidChild)));
			if ok {
				kept_ids.insert(txid);
				kept.push(tx);
			} else {
				dropped.push(txid);
			}
		}
		self.mempool = kept;
		dropped
	}
	pub fn confirmations(&self, txid: &Txid) -> u32 {
		match self.confirmed_at.get(txid) {
			Some(h) => self.height() + 1 - h,
			None => 0,
		}
	}
	pub fn wallet_coin(&mut self, script: ScriptBuf, sats: u64, salt: u32) -> (Transaction, OutPoint) {
		// a unique transaction without inputs paying to `script` (harness money)
		let tx = Transaction { version: bitcoin::transaction::Version(2), lock_time: bitcoin::locktime::absolute::LockTime::from_consensus(salt), input: vec![], output: vec![TxOut { value: Amount::from_sat(sats), script_pubkey: script }] };
		let op = OutPoint { txid: tx.compute_txid(), vout: 0 };
		self.inject(tx.clone());
		(tx, op)
	}
}

impl Default for Chain {
	fn default() -> Self {
		Chain::new()
	}
}
