//! Shared plumbing for every check binary: seeded PRNG, a tiny JSON value, the per-shard report
//! (counters, distinct abstract cases, samples, violations, inconclusive reasons), panic capture
//! and command-line conventions. No dependency on LDK.

use std::collections::{BTreeMap, BTreeSet};
use std::fmt::Write as _;

// ---------------------------------------------------------------------------------------------
// PRNG: xoshiro256** seeded through splitmix64. Deterministic, cheap, good enough for workloads.
// ---------------------------------------------------------------------------------------------
#[derive(Clone, Debug)]
pub struct Rng {
	s: [u64; 4],
}

fn splitmix(x: &mut u64) -> u64 {
	*x = x.wrapping_add(0x9E3779B97F4A7C15);
	let mut z = *x;
	z = (z ^ (z >> 30)).wrapping_mul(0xBF58476D1CE4E5B9);
	z = (z ^ (z >> 27)).wrapping_mul(0x94D049BB133111EB);
	z ^ (z >> 31)
}

impl Rng {
	pub fn new(seed: u64) -> Rng {
		let mut x = seed;
		Rng { s: [splitmix(&mut x), splitmix(&mut x), splitmix(&mut x), splitmix(&mut x)] }
	}
	/// Independent stream derived from this seed and a label (used for per-run / per-shard seeds).
	pub fn derive(seed: u64, a: u64, b: u64) -> Rng {
		let mut x = seed ^ a.wrapping_mul(0xD6E8FEB86659FD93) ^ b.rotate_left(32).wrapping_mul(0xA24BAED4963EE407);
		let _ = splitmix(&mut x);
		Rng::new(splitmix(&mut x))
	}
	pub fn next(&mut self) -> u64 {
		let r = self.s[1].wrapping_mul(5).rotate_left(7).wrapping_mul(9);
		let t = self.s[1] << 17;
		self.s[2] ^= self.s[0];
		self.s[3] ^= self.s[1];
		self.s[1] ^= self.s[2];
		self.s[0] ^= self.s[3];
		self.s[2] ^= t;
		self.s[3] = self.s[3].rotate_left(45);
		r
	}
	/// Uniform in [0, n). n == 0 returns 0.
	pub fn below(&mut self, n: u64) -> u64 {
		if n == 0 {
			0
		} else {
			self.next() % n
		}
	}
	pub fn range(&mut self, lo: u64, hi_incl: u64) -> u64 {
		if hi_incl <= lo {
			lo
		} else {
			lo + self.below(hi_incl - lo + 1)
		}
	}
	pub fn chance(&mut self, num: u64, den: u64) -> bool {
		self.below(den) < num
	}
	pub fn pick<'a, T>(&mut self, v: &'a [T]) -> &'a T {
		&v[self.below(v.len() as u64) as usize]
	}
	pub fn bytes<const N: usize>(&mut self) -> [u8; N] {
		let mut out = [0u8; N];
		for c in out.chunks_mut(8) {
			let r = self.next().to_le_bytes();
			c.copy_from_slice(&r[..c.len()]);
		}
		out
	}
	pub fn fill(&mut self, out: &mut [u8]) {
		for c in out.chunks_mut(8) {
			let r = self.next().to_le_bytes();
			c.copy_from_slice(&r[..c.len()]);
		}
	}
	pub fn vec(&mut self, len: usize) -> Vec<u8> {
		let mut v = vec![0u8; len];
		self.fill(&mut v);
		v
	}
	pub fn shuffle<T>(&mut self, v: &mut [T]) {
		for i in (1..v.len()).rev() {
			let j = self.below(i as u64 + 1) as usize;
			v.swap(i, j);
		}
	}
	/// Weighted choice: returns index.
	pub fn weighted(&mut self, w: &[u32]) -> usize {
		let tot: u64 = w.iter().map(|x| *x as u64).sum();
		let mut r = self.below(tot.max(1));
		for (i, x) in w.iter().enumerate() {
			if r < *x as u64 {
				return i;
			}
			r -= *x as u64;
		}
		w.len() - 1
	}
}

// ---------------------------------------------------------------------------------------------
// FNV-1a 64 hashing of abstract traces (for counting *distinct* cases)
// ---------------------------------------------------------------------------------------------
#[derive(Clone, Copy, Debug)]
pub struct Fnv(pub u64);
impl Default for Fnv {
	fn default() -> Self {
		Fnv(0xcbf29ce484222325)
	}
}
impl Fnv {
	pub fn new() -> Fnv {
		Fnv::default()
	}
	pub fn bytes(&mut self, b: &[u8]) -> &mut Self {
		for x in b {
			self.0 ^= *x as u64;
			self.0 = self.0.wrapping_mul(0x100000001b3);
		}
		self
	}
	pub fn u64(&mut self, v: u64) -> &mut Self {
		self.bytes(&v.to_le_bytes())
	}
	pub fn str(&mut self, s: &str) -> &mut Self {
		self.bytes(s.as_bytes()).bytes(&[0xff])
	}
	pub fn get(&self) -> u64 {
		self.0
	}
}
pub fn fnv_str(s: &str) -> u64 {
	Fnv::new().str(s).get()
}

// ---------------------------------------------------------------------------------------------
// JSON
// ---------------------------------------------------------------------------------------------
#[derive(Clone, Debug, PartialEq)]
pub enum Json {
	Null,
	Bool(bool),
	Int(i128),
	Num(f64),
	Str(String),
	Arr(Vec<Json>),
	Obj(Vec<(String, Json)>),
}

impl Json {
	pub fn obj() -> Json {
		Json::Obj(vec![])
	}
	pub fn set(mut self, k: &str, v: impl Into<Json>) -> Json {
		if let Json::Obj(ref mut o) = self {
			o.push((k.to_string(), v.into()));
		}
		self
	}
	pub fn put(&mut self, k: &str, v: impl Into<Json>) {
		if let Json::Obj(ref mut o) = self {
			o.push((k.to_string(), v.into()));
		}
	}
	pub fn render(&self) -> String {
		let mut s = String::new();
		self.write(&mut s);
		s
	}
	fn write(&self, out: &mut String) {
		match self {
			Json::Null => out.push_str("null"),
			Json::Bool(b) => out.push_str(if *b { "true" } else { "false" }),
			Json::Int(i) => {
				let _ = write!(out, "{}", i);
			},
			Json::Num(f) => {
				if f.is_finite() {
					let _ = write!(out, "{}", f);
				} else {
					out.push_str("null");
				}
			},
			Json::Str(s) => {
				out.push('"');
				for c in s.chars() {
					match c {
						'"' => out.push_str("\\\""),
						'\\' => out.push_str("\\\\"),
						'\n' => out.push_str("\\n"),
						'\r' => out.push_str("\\r"),
						'\t' => out.push_str("\\t"),
						c if (c as u32) < 0x20 => {
							let _ = write!(out, "\\u{:04x}", c as u32);
						},
						c => out.push(c),
					}
				}
				out.push('"');
			},
			Json::Arr(a) => {
				out.push('[');
				for (i, v) in a.iter().enumerate() {
					if i > 0 {
						out.push(',');
					}
					v.write(out);
				}
				out.push(']');
			},
			Json::Obj(o) => {
				out.push('{');
				for (i, (k, v)) in o.iter().enumerate() {
					if i > 0 {
						out.push(',');
					}
					Json::Str(k.clone()).write(out);
					out.push(':');
					v.write(out);
				}
				out.push('}');
			},
		}
	}
}
impl From<&str> for Json {
	fn from(s: &str) -> Json {
		Json::Str(s.to_string())
	}
}
impl From<String> for Json {
	fn from(s: String) -> Json {
		Json::Str(s)
	}
}
impl From<bool> for Json {
	fn from(s: bool) -> Json {
		Json::Bool(s)
	}
}
macro_rules! int_into_json { ($($t:ty),*) => { $(impl From<$t> for Json { fn from(v: $t) -> Json { Json::Int(v as i128) } })* } }
int_into_json!(u8, u16, u32, u64, usize, i32, i64, i128, u128);
impl From<f64> for Json {
	fn from(v: f64) -> Json {
		Json::Num(v)
	}
}
impl<T: Into<Json>> From<Vec<T>> for Json {
	fn from(v: Vec<T>) -> Json {
		Json::Arr(v.into_iter().map(|x| x.into()).collect())
	}
}
impl<T: Into<Json>> From<Option<T>> for Json {
	fn from(v: Option<T>) -> Json {
		match v {
			Some(x) => x.into(),
			None => Json::Null,
		}
	}
}

pub fn hex(b: &[u8]) -> String {
	let mut s = String::with_capacity(b.len() * 2);
	for x in b {
		let _ = write!(s, "{:02x}", x);
	}
	s
}
pub fn unhex(s: &str) -> Option<Vec<u8>> {
	if s.len() % 2 != 0 {
		return None;
	}
	(0..s.len()).step_by(2).map(|i| u8::from_str_radix(&s[i..i + 2], 16).ok()).collect()
}

// ---------------------------------------------------------------------------------------------
// Per-shard report
// ---------------------------------------------------------------------------------------------
#[derive(Clone, Debug)]
pub struct Violation {
	pub property: String,
	pub rule: String,
	/// canonical, stable description used to match known findings (no raw keys/txids/seeds)
	pub signature: String,
	pub detail: String,
	pub replay: Option<String>,
}

#[derive(Default)]
pub struct Report {
	pub property: String,
	pub tier: String,
	pub seed: u64,
	pub shard: u64,
	pub evaluations: u64,
	pub counters: BTreeMap<String, u64>,
	pub maxima: BTreeMap<String, u64>,
	pub distinct: BTreeSet<u64>,
	pub sets: BTreeMap<String, BTreeSet<String>>,
	pub samples: Vec<Json>,
	pub violations: Vec<Violation>,
	/// violations of *other* properties' rules noticed by monitors that ride along
	pub foreign: Vec<Violation>,
	pub inconclusive: Vec<String>,
	pub notes: Vec<String>,
	pub max_samples: usize,
	pub max_distinct: usize,
}

impl Report {
	pub fn new(property: &str, tier: &str, seed: u64, shard: u64) -> Report {
		Report { property: property.into(), tier: tier.into(), seed, shard, max_samples: 6, max_distinct: 400_000, ..Default::default() }
	}
	pub fn count(&mut self, k: &str) {
		self.add(k, 1);
	}
	pub fn add(&mut self, k: &str, n: u64) {
		*self.counters.entry(k.to_string()).or_insert(0) += n;
	}
	pub fn max(&mut self, k: &str, v: u64) {
		let e = self.maxima.entry(k.to_string()).or_insert(0);
		if v > *e {
			*e = v;
		}
	}
	pub fn get(&self, k: &str) -> u64 {
		self.counters.get(k).cloned().unwrap_or(0)
	}
	/// Record one distinct non-trivial abstract case.
	pub fn distinct(&mut self, h: u64) {
		if self.distinct.len() < self.max_distinct {
			self.distinct.insert(h);
		}
	}
	pub fn set_insert(&mut self, set: &str, member: impl Into<String>) {
		let s = self.sets.entry(set.to_string()).or_default();
		if s.len() < 5000 {
			s.insert(member.into());
		}
	}
	pub fn sample(&mut self, j: Json) {
		if self.samples.len() < self.max_samples {
			self.samples.push(j);
		}
	}
	pub fn violation(&mut self, property: &str, rule: &str, signature: &str, detail: String, replay: Option<String>) {
		let v = Violation { property: property.into(), rule: rule.into(), signature: signature.into(), detail, replay };
		if property == self.property {
			if self.violations.len() < 200 {
				self.violations.push(v);
			}
			self.count("violations_total");
		} else {
			if self.foreign.len() < 400 {
				self.foreign.push(v);
			}
			self.count("foreign_violations_total");
		}
	}
	pub fn inconclusive(&mut self, why: impl Into<String>) {
		if self.inconclusive.len() < 50 {
			self.inconclusive.push(why.into());
		}
		self.count("inconclusive_total");
	}
	pub fn note(&mut self, s: impl Into<String>) {
		if self.notes.len() < 50 {
			self.notes.push(s.into());
		}
	}
	pub fn merge(&mut self, o: Report) {
		self.evaluations += o.evaluations;
		for (k, v) in o.counters {
			*self.counters.entry(k).or_insert(0) += v;
		}
		for (k, v) in o.maxima {
			self.max(&k, v);
		}
		for h in o.distinct {
			self.distinct(h);
		}
		for (k, s) in o.sets {
			for m in s {
				self.set_insert(&k, m);
			}
		}
		for s in o.samples {
			self.sample(s);
		}
		for v in o.violations {
			if self.violations.len() < 200 {
				self.violations.push(v);
			}
		}
		for v in o.foreign {
			if self.foreign.len() < 400 {
				self.foreign.push(v);
			}
		}
		for i in o.inconclusive {
			if self.inconclusive.len() < 50 {
				self.inconclusive.push(i);
			}
		}
		for n in o.notes {
			self.note(n);
		}
	}
	pub fn to_json(&self) -> Json {
		let viol = |v: &Violation| {
			Json::obj()
				.set("property", v.property.as_str())
				.set("rule", v.rule.as_str())
				.set("signature", v.signature.as_str())
				.set("detail", v.detail.as_str())
				.set("replay", v.replay.clone())
		};
		Json::obj()
			.set("property", self.property.as_str())
			.set("tier", self.tier.as_str())
			.set("seed", self.seed)
			.set("shard", self.shard)
			.set("evaluations", self.evaluations)
			.set("counters", Json::Obj(self.counters.iter().map(|(k, v)| (k.clone(), Json::from(*v))).collect()))
			.set("maxima", Json::Obj(self.maxima.iter().map(|(k, v)| (k.clone(), Json::from(*v))).collect()))
			.set("distinct", Json::Arr(self.distinct.iter().map(|h| Json::Str(format!("{:016x}", h))).collect()))
			.set("sets", Json::Obj(self.sets.iter().map(|(k, s)| (k.clone(), Json::Arr(s.iter().map(|m| Json::Str(m.clone())).collect()))).collect()))
			.set("samples", Json::Arr(self.samples.clone()))
			.set("violations", Json::Arr(self.violations.iter().map(viol).collect()))
			.set("foreign_violations", Json::Arr(self.foreign.iter().map(viol).collect()))
			.set("inconclusive", Json::Arr(self.inconclusive.iter().map(|s| Json::Str(s.clone())).collect()))
			.set("notes", Json::Arr(self.notes.iter().map(|s| Json::Str(s.clone())).collect()))
	}
	pub fn write_to(&self, path: &str) {
		if let Some(dir) = std::path::Path::new(path).parent() {
			let _ = std::fs::create_dir_all(dir);
		}
		std::fs::write(path, self.to_json().render()).expect("cannot write shard report");
	}
}

// ---------------------------------------------------------------------------------------------
// Command line: --prop C01 --tier quick --seed N --shard k --nshards n --out file [--runs N] [--replay f] [k=v ...]
// ---------------------------------------------------------------------------------------------
#[derive(Clone, Debug, Default)]
pub struct Args {
	pub prop: String,
	pub tier: String,
	pub seed: u64,
	pub shard: u64,
	pub nshards: u64,
	pub out: String,
	pub replay: Option<String>,
	pub replay_dir: String,
	pub kv: BTreeMap<String, String>,
}
impl Args {
	pub fn parse() -> Args {
		let mut a = Args { tier: "quick".into(), nshards: 1, out: "/dev/stdout".into(), replay_dir: "/verif/replays".into(), ..Default::default() };
		let v: Vec<String> = std::env::args().skip(1).collect();
		let mut i = 0;
		while i < v.len() {
			let need = |i: usize| v.get(i + 1).cloned().unwrap_or_else(|| panic!("missing value for {}", v[i]));
			match v[i].as_str() {
				"--prop" => { a.prop = need(i); i += 1; },
				"--tier" => { a.tier = need(i); i += 1; },
				"--seed" => { a.seed = need(i).parse().expect("seed"); i += 1; },
				"--shard" => { a.shard = need(i).parse().expect("shard"); i += 1; },
				"--nshards" => { a.nshards = need(i).parse().expect("nshards"); i += 1; },
				"--out" => { a.out = need(i); i += 1; },
				"--replay" => { a.replay = Some(need(i)); i += 1; },
				"--replay-dir" => { a.replay_dir = need(i); i += 1; },
				s if s.contains('=') => { let (k, val) = s.split_once('=').unwrap(); a.kv.insert(k.to_string(), val.to_string()); },
				s => panic!("unknown argument {}", s),
			}
			i += 1;
		}
		a
	}
	pub fn thorough(&self) -> bool {
		self.tier == "thorough"
	}
	pub fn num(&self, k: &str, quick: u64, thorough: u64) -> u64 {
		match self.kv.get(k) {
			Some(v) => v.parse().unwrap_or_else(|_| panic!("bad value for {}", k)),
			None => if self.thorough() { thorough } else { quick },
		}
	}
	pub fn flag(&self, k: &str) -> bool {
		self.kv.get(k).map(|v| v != "0").unwrap_or(false)
	}
	pub fn report(&self) -> Report {
		Report::new(&self.prop, &self.tier, self.seed, self.shard)
	}
	/// Seed of this shard's stream `label`.
	pub fn rng(&self, label: u64) -> Rng {
		Rng::derive(self.seed, self.shard, label)
	}
	/// Write a replay/witness file and return its path.
	pub fn write_replay(&self, name: &str, body: &Json) -> String {
		let dir = format!("{}/{}", self.replay_dir, self.prop);
		let _ = std::fs::create_dir_all(&dir);
		let path = format!("{}/{}.json", dir, name);
		let _ = std::fs::write(&path, body.render());
		path
	}
}

// ---------------------------------------------------------------------------------------------
// Panic capture: run a closure, return Err(message) if it panicked. The default panic hook is
// replaced by one that records the message and location (and stays quiet).
// ---------------------------------------------------------------------------------------------
thread_local! { static LAST_PANIC: std::cell::RefCell<Option<String>> = const { std::cell::RefCell::new(None) }; }
pub fn install_quiet_panic_hook() {
	std::panic::set_hook(Box::new(|info| {
		let msg = if let Some(s) = info.payload().downcast_ref::<&str>() {
			s.to_string()
		} else if let Some(s) = info.payload().downcast_ref::<String>() {
			s.clone()
		} else {
			"<non-string panic>".to_string()
		};
		let loc = info.location().map(|l| format!("{}:{}", l.file(), l.line())).unwrap_or_default();
		LAST_PANIC.with(|p| *p.borrow_mut() = Some(format!("{} @ {}", msg, loc)));
		if std::env::var("VERIF_PANIC_TRACE").is_ok() {
			eprintln!("panic: {} @ {}\n{}", msg, loc, std::backtrace::Backtrace::force_capture());
		}
	}));
}
pub fn guarded<T>(f: impl FnOnce() -> T) -> Result<T, String> {
	LAST_PANIC.with(|p| *p.borrow_mut() = None);
	match std::panic::catch_unwind(std::panic::AssertUnwindSafe(f)) {
		Ok(v) => Ok(v),
		Err(_) => Err(LAST_PANIC.with(|p| p.borrow_mut().take()).unwrap_or_else(|| "<panic>".to_string())),
	}
}

/// Strip numbers and hex blobs so that a message can be used inside a signature.
pub fn canon(s: &str) -> String {
	let cs: Vec<char> = s.chars().collect();
	let mut out = String::new();
	let mut i = 0;
	while i < cs.len() {
		// a run of hex digits: a blob if it is long (>= 6) or purely decimal
		if cs[i].is_ascii_hexdigit() && (i == 0 || !cs[i - 1].is_ascii_alphanumeric()) {
			let mut j = i;
			while j < cs.len() && cs[j].is_ascii_hexdigit() {
				j += 1;
			}
			let run: String = cs[i..j].iter().collect();
			let boundary = j == cs.len() || !cs[j].is_ascii_alphanumeric();
			if boundary && (run.chars().all(|c| c.is_ascii_digit()) || run.len() >= 6) {
				if !out.ends_with('#') {
					out.push('#');
				}
				i = j;
				continue;
			}
		}
		if cs[i].is_ascii_digit() {
			if !out.ends_with('#') {
				out.push('#');
			}
			i += 1;
			continue;
		}
		out.push(cs[i]);
		i += 1;
	}
	out.chars().take(200).collect()
}

#[cfg(test)]
mod tests {
	use super::*;
	#[test]
	fn json_and_rng() {
		let j = Json::obj().set("a", 1u64).set("b", vec!["x\"y".to_string()]).set("c", Json::Null);
		assert_eq!(j.render(), "{\"a\":1,\"b\":[\"x\\\"y\"],\"c\":null}");
		let mut r = Rng::new(7);
		let mut r2 = Rng::new(7);
		assert_eq!(r.next(), r2.next());
		assert!(r.below(10) < 10);
		assert_eq!(canon("seed 123 id abcdef01 x.rs:77"), "seed # id # x.rs:#");
	}
}
